package main

import (
	"bytes"
	"encoding/binary"
	"encoding/json"
	"flag"
	"math"
	"math/rand"
	"os"
	"sort"
	"strconv"
	"strings"

	art "github.com/Clement-Jean/go-art"
)

// Codec batches (C07): the real Transform/Restore of the exported codec types on
// bit patterns, sorted by the oracle comparators (native <, float order of the
// statement), never by an encoding.

type codecType struct {
	name string // uint8 ... float64, uint, int
	ty   string // spec type: u | i | f32 | f64
	w    int
	cmp  func(a, b uint64) int
	enc  func(p uint64) []byte
	dec  func(e []byte) uint64
}

func sx(p uint64, w int) int64 { s := uint(64 - 8*w); return int64(p<<s) >> s }

func codecTypes() []codecType {
	u := func(a, b uint64) int { return cmpOrdered(a, b) }
	i := func(w int) func(a, b uint64) int {
		return func(a, b uint64) int { return cmpOrdered(sx(a, w), sx(b, w)) }
	}
	f32 := func(a, b uint64) int {
		return floatCmp(float64(math.Float32frombits(uint32(a))), float64(math.Float32frombits(uint32(b))))
	}
	f64 := func(a, b uint64) int { return floatCmp(math.Float64frombits(a), math.Float64frombits(b)) }
	t2 := func(_ []byte, b []byte) []byte { return b }
	ts := []codecType{
		{"uint8", "u", 1, u, func(p uint64) []byte { return t2(art.UnsignedBinaryKey[uint8]{}.Transform(uint8(p))) },
			func(e []byte) uint64 { return uint64(art.UnsignedBinaryKey[uint8]{}.Restore(e)) }},
		{"uint16", "u", 2, u, func(p uint64) []byte { return t2(art.UnsignedBinaryKey[uint16]{}.Transform(uint16(p))) },
			func(e []byte) uint64 { return uint64(art.UnsignedBinaryKey[uint16]{}.Restore(e)) }},
		{"uint32", "u", 4, u, func(p uint64) []byte { return t2(art.UnsignedBinaryKey[uint32]{}.Transform(uint32(p))) },
			func(e []byte) uint64 { return uint64(art.UnsignedBinaryKey[uint32]{}.Restore(e)) }},
		{"uint64", "u", 8, u, func(p uint64) []byte { return t2(art.UnsignedBinaryKey[uint64]{}.Transform(p)) },
			func(e []byte) uint64 { return art.UnsignedBinaryKey[uint64]{}.Restore(e) }},
		{"uint", "u", uintBytes, u, func(p uint64) []byte { return t2(art.UnsignedBinaryKey[uint]{}.Transform(uint(p))) },
			func(e []byte) uint64 { return uint64(art.UnsignedBinaryKey[uint]{}.Restore(e)) }},
		{"int8", "i", 1, i(1), func(p uint64) []byte { return t2(art.SignedBinaryKey[int8]{}.Transform(int8(p))) },
			func(e []byte) uint64 { return uint64(uint8(art.SignedBinaryKey[int8]{}.Restore(e))) }},
		{"int16", "i", 2, i(2), func(p uint64) []byte { return t2(art.SignedBinaryKey[int16]{}.Transform(int16(p))) },
			func(e []byte) uint64 { return uint64(uint16(art.SignedBinaryKey[int16]{}.Restore(e))) }},
		{"int32", "i", 4, i(4), func(p uint64) []byte { return t2(art.SignedBinaryKey[int32]{}.Transform(int32(p))) },
			func(e []byte) uint64 { return uint64(uint32(art.SignedBinaryKey[int32]{}.Restore(e))) }},
		{"int64", "i", 8, i(8), func(p uint64) []byte { return t2(art.SignedBinaryKey[int64]{}.Transform(int64(p))) },
			func(e []byte) uint64 { return uint64(art.SignedBinaryKey[int64]{}.Restore(e)) }},
		{"int", "i", uintBytes, i(uintBytes), func(p uint64) []byte { return t2(art.SignedBinaryKey[int]{}.Transform(int(sx(p, uintBytes)))) },
			func(e []byte) uint64 { return uint64(art.SignedBinaryKey[int]{}.Restore(e)) & mask(uintBytes) }},
		{"float32", "f32", 4, f32, func(p uint64) []byte {
			return t2(art.FloatBinaryKey[float32]{}.Transform(math.Float32frombits(uint32(p))))
		}, func(e []byte) uint64 { return uint64(math.Float32bits(art.FloatBinaryKey[float32]{}.Restore(e))) }},
		{"float64", "f64", 8, f64, func(p uint64) []byte {
			return t2(art.FloatBinaryKey[float64]{}.Transform(math.Float64frombits(p)))
		}, func(e []byte) uint64 { return math.Float64bits(art.FloatBinaryKey[float64]{}.Restore(e)) }},
	}
	return ts
}

func mask(w int) uint64 {
	if w >= 8 {
		return ^uint64(0)
	}
	return 1<<(8*uint(w)) - 1
}

// patterns of interest for a width: boundary products, specials with neighbours, random
func patternsFor(t codecType, r *rand.Rand, nrand int, exhaustive16 bool) []uint64 {
	m := mask(t.w)
	set := map[uint64]struct{}{}
	add := func(p uint64) { set[p&m] = struct{}{} }
	if t.w == 1 || (t.w == 2 && exhaustive16) {
		for p := uint64(0); p <= m; p++ {
			add(p)
		}
	}
	bb := []uint64{0x00, 0x01, 0x7f, 0x80, 0xfe, 0xff}
	// products of boundary bytes at every byte position pair
	for i := 0; i < t.w; i++ {
		for j := 0; j < t.w; j++ {
			for _, x := range bb {
				for _, y := range bb {
					add(x<<(8*uint(i)) | y<<(8*uint(j)))
					add(m ^ (x<<(8*uint(i)) | y<<(8*uint(j))))
				}
			}
		}
	}
	var specials []uint64
	specials = append(specials, 0, 1, m, m-1, m>>1, (m>>1)+1, (m>>1)+2, (m>>1)-1)
	if t.ty == "f32" {
		for _, f := range []float32{0, float32(math.Copysign(0, -1)), 1, -1, math.MaxFloat32, -math.MaxFloat32,
			math.SmallestNonzeroFloat32, -math.SmallestNonzeroFloat32, float32(math.Inf(1)), float32(math.Inf(-1)), 1.17549435e-38, -1.17549435e-38} {
			specials = append(specials, uint64(math.Float32bits(f)))
		}
		specials = append(specials, 0x7fc00000, 0xffc00000, 0x7f800001, 0xff800001, 0x7fffffff, 0xffffffff, 0x007fffff, 0x807fffff, 0x00800000, 0x80800000)
	}
	if t.ty == "f64" {
		for _, f := range []float64{0, math.Copysign(0, -1), 1, -1, math.MaxFloat64, -math.MaxFloat64,
			math.SmallestNonzeroFloat64, -math.SmallestNonzeroFloat64, math.Inf(1), math.Inf(-1), 2.2250738585072014e-308, -2.2250738585072014e-308} {
			specials = append(specials, math.Float64bits(f))
		}
		specials = append(specials, 0x7ff8000000000000, 0xfff8000000000000, 0x7ff0000000000001, 0xfff0000000000001,
			0x7fffffffffffffff, 0xffffffffffffffff, 0x000fffffffffffff, 0x800fffffffffffff, 0x0010000000000000, 0x8010000000000000)
	}
	for _, s := range specials {
		for d := -2; d <= 2; d++ {
			add(s + uint64(int64(d)))
		}
	}
	for i := 0; i < nrand; i++ {
		p := r.Uint64()
		switch r.Intn(4) {
		case 0: // cluster: shared high bytes
			p = (p & 0xffff) | (uint64(r.Intn(4)) << 62) | (uint64(r.Intn(3)) << uint(8*(t.w-1)))
		case 1: // exponent-heavy patterns for floats
			p = p&m&^(uint64(0xfff)<<uint(8*t.w-12)) | uint64(r.Intn(4096))<<uint(8*t.w-12)
			if t.w < 2 {
				p = r.Uint64()
			}
		}
		add(p)
	}
	out := make([]uint64, 0, len(set))
	for p := range set {
		out = append(out, p)
	}
	return out
}

func be(p uint64, w int) []byte {
	b := make([]byte, 8)
	binary.BigEndian.PutUint64(b, p)
	return b[8-w:]
}

func cmdCodec(args []string) {
	fs := flag.NewFlagSet("codec", flag.ExitOnError)
	out := fs.String("out", "codec.ndjson", "")
	seed := fs.Int64("seed", 1, "")
	nrand := fs.Int("nrand", 10000, "random patterns per 32/64-bit type")
	ex16 := fs.Bool("ex16", true, "all 65536 patterns of the 16-bit types")
	tuples := fs.Int("tuples", 8, "random numeric tuple schemas")
	parts := fs.Int("parts", 16, "")
	stats := fs.String("stats", "", "")
	fs.Parse(args)
	r := rand.New(rand.NewSource(*seed))
	trs := make([]*Trace, *parts)
	for i := range trs {
		trs[i] = NewTrace(*out + "." + strconv.Itoa(i))
	}
	const per = 256
	recs, batches := 0, 0
	var samples []string
	curName := ""
	writeBatch := func(tr *Trace, ty string, w int, fields string, ins, encs, decs, dec2s [][]byte) {
		for off := 0; off < len(ins); off += per {
			end := min(off+per, len(ins))
			if off == 0 {
				tr.start("batch")
			} else {
				tr.start("cont")
			}
			tr.fStr("ty", ty)
			tr.fInt("w", w)
			tr.fStr("name", curName) // the Go key type (uint, int ... share ty/w with uint64, int64)
			if fields != "" {
				tr.buf = append(tr.buf, `,"fields":`...)
				tr.buf = append(tr.buf, fields...)
			}
			tr.buf = append(tr.buf, `,"items":[`...)
			for i := off; i < end; i++ {
				if i > off {
					tr.buf = append(tr.buf, ',')
				}
				tr.buf = append(tr.buf, `{"in":`...)
				tr.rawBytes(ins[i])
				tr.buf = append(tr.buf, `,"enc":`...)
				tr.rawBytes(encs[i])
				tr.buf = append(tr.buf, `,"dec":`...)
				tr.rawBytes(decs[i])
				tr.buf = append(tr.buf, `,"dec2":`...)
				tr.rawBytes(dec2s[i])
				tr.buf = append(tr.buf, '}')
			}
			tr.buf = append(tr.buf, ']')
			tr.emit()
		}
	}
	bi := 0
	pass := 0
typesAgain:
	for _, t := range codecTypes() {
		if pass == 1 && t.w > 2 {
			continue // second pass (after the tuples): the small types once more - encoders must not keep state
		}
		curName = t.name
		ps := patternsFor(t, r, *nrand, *ex16)
		sort.SliceStable(ps, func(i, j int) bool { return t.cmp(ps[i], ps[j]) < 0 })
		// cut into independent batches so that files can be validated in parallel
		chunk := 8192
		for off := 0; off < len(ps); off += chunk - 1 { // overlap by one record: adjacency across chunks is checked too
			end := min(off+chunk, len(ps))
			var ins, encs, decs, dec2s [][]byte
			for _, p := range ps[off:end] {
				var e, e0 []byte
				var d, d2 uint64
				// the encoding is recorded as the encoder returned it; the SAME slice is then decoded twice (a holder of an
				// encoding - a leaf - decodes it again and again)
				if msg := guard(func() { e = t.enc(p); e0 = cloneB(e); d = t.dec(e); d2 = t.dec(e) }); msg != "" {
					// an encoder / decoder that faults on a value of its type: logged as a record of its own
					tr := trs[bi%len(trs)]
					tr.start("panic")
					tr.fStr("ty", t.ty)
					tr.fInt("w", t.w)
					tr.fStr("name", t.name)
					tr.fBytes("in", be(p, t.w))
					tr.fStr("msg", msg)
					tr.emit()
					continue
				}
				ins = append(ins, be(p, t.w))
				encs = append(encs, e0)
				decs = append(decs, be(d, t.w))
				dec2s = append(dec2s, be(d2, t.w))
			}
			if len(ins) == 0 {
				bi++
				if end == len(ps) {
					break
				}
				continue
			}
			writeBatch(trs[bi%len(trs)], t.ty, t.w, "", ins, encs, decs, dec2s)
			bi++
			batches++
			recs += end - off
			if end == len(ps) {
				break
			}
		}
		if len(samples) < 6 && len(ps) > 2 {
			samples = append(samples, t.name+": "+strconv.FormatUint(ps[len(ps)/2], 16))
		}
	}
	if pass == 1 {
		goto done
	}
	// tuples: concatenations of the numeric encodings; every numeric type leads one schema (its encoding is the
	// buffer the following fields are appended to), the rest is random
	curName = "tuple"
	for s := 0; s < *tuples+fStr; s++ {
		var sc Schema
		n := 2 + r.Intn(3)
		for i := 0; i < n; i++ {
			sc.Fields = append(sc.Fields, r.Intn(fStr))
		}
		if s < fStr {
			sc.Fields[0] = s
		}
		codec := tupleCodec{sc}
		cmp := tupleCmp(sc)
		raw := tupleUniverse(sc, *seed+int64(s), 600)
		var ts []Tuple
		for _, rk := range raw {
			ts = append(ts, rawToTupleRaw(sc, rk.B))
		}
		sort.SliceStable(ts, func(i, j int) bool { return cmp(ts[i], ts[j]) < 0 })
		var fields []string
		w := 0
		for _, f := range sc.Fields {
			ty := map[int]string{fU8: "u", fU16: "u", fU32: "u", fU64: "u", fI8: "i", fI16: "i", fI32: "i", fI64: "i", fF32: "f32", fF64: "f64"}[f]
			fields = append(fields, `{"ty":"`+ty+`","w":`+strconv.Itoa(fieldWidth[f])+`}`)
			w += fieldWidth[f]
		}
		var ins, encs, decs, dec2s [][]byte
		for _, t := range ts {
			var e, e0 []byte
			var d, d2 Tuple
			if msg := guard(func() { e, _ = codec.Transform(t); e0 = cloneB(e); d = codec.Restore(e); d2 = codec.Restore(e) }); msg != "" {
				continue // a fault of a field codec is reported by that field type's own batch
			}
			ins = append(ins, tupleBits(sc, t))
			encs = append(encs, e0)
			decs = append(decs, tupleBits(sc, d))
			dec2s = append(dec2s, tupleBits(sc, d2))
		}
		writeBatch(trs[bi%len(trs)], "tuple", w, "["+strings.Join(fields, ",")+"]", ins, encs, decs, dec2s)
		bi++
		batches++
		recs += len(ts)
		if len(samples) < 8 {
			samples = append(samples, "tuple "+sc.String())
		}
	}
	pass = 1
	goto typesAgain
done:
	lines := 0
	for _, t := range trs {
		lines += t.Lines
		t.Close()
	}
	writeStats(*stats, Stats{Cmd: "codec", Lines: lines, Ops: recs, Segments: batches, Samples: samples})
}

// rawToTupleRaw keeps NaN payloads (no canonicalisation): C07 wants every bit pattern.
func rawToTupleRaw(s Schema, b []byte) Tuple {
	var t Tuple
	off := 0
	for i, f := range s.Fields {
		w := fieldWidth[f]
		var sub []byte
		if off < len(b) {
			sub = b[off:min(len(b), off+w)]
		}
		t.N[i] = pattern(sub, w)
		off += w
	}
	return t
}

func tupleBits(s Schema, t Tuple) []byte {
	var out []byte
	for i, f := range s.Fields {
		out = append(out, be(t.N[i]&mask(fieldWidth[f]), fieldWidth[f])...)
	}
	return out
}

func init() { extraCmds["codec"] = cmdCodec }

// cmdCodecRerun re-encodes the input patterns of recorded batches in a fresh process.
func cmdCodecRerun(args []string) {
	fs := flag.NewFlagSet("codecrun", flag.ExitOnError)
	in := fs.String("in", "", "")
	out := fs.String("out", "codecrun.ndjson", "")
	fs.Parse(args)
	data, err := os.ReadFile(*in)
	if err != nil {
		fatal("%v", err)
	}
	tr := NewTrace(*out)
	types := codecTypes()
	for _, ln := range bytes.Split(data, []byte("\n")) {
		if len(ln) == 0 {
			continue
		}
		var e struct {
			Op     string `json:"op"`
			Ty     string `json:"ty"`
			W      int    `json:"w"`
			Name   string `json:"name"`
			Fields []struct {
				Ty string `json:"ty"`
				W  int    `json:"w"`
			} `json:"fields"`
			Items []struct {
				In []int `json:"in"`
			} `json:"items"`
			In []int `json:"in"`
		}
		if json.Unmarshal(ln, &e) != nil {
			continue
		}
		if e.Op == "panic" {
			// re-encode the value that faulted
			inb := make([]byte, len(e.In))
			for j, x := range e.In {
				inb[j] = byte(x)
			}
			msg := guard(func() {
				for _, t := range types {
					if t.ty == e.Ty && t.w == e.W && (e.Name == "" || t.name == e.Name) {
						t.dec(t.enc(pattern(inb, e.W)))
					}
				}
			})
			if msg != "" {
				tr.start("panic")
				tr.fStr("ty", e.Ty)
				tr.fInt("w", e.W)
				tr.fBytes("in", inb)
				tr.fStr("msg", msg)
				tr.emit()
			}
			continue
		}
		pick := func(ty string, w int) codecType {
			for _, t := range types {
				if e.Ty != "tuple" && e.Name != "" && t.name == e.Name {
					return t
				}
			}
			for _, t := range types {
				if t.ty == ty && t.w == w && t.name != "uint" && t.name != "int" {
					return t
				}
			}
			fatal("no codec for %s/%d", ty, w)
			return codecType{}
		}
		tr.start(e.Op)
		tr.fStr("ty", e.Ty)
		tr.fInt("w", e.W)
		tr.fStr("name", e.Name)
		if e.Ty == "tuple" {
			fb, _ := json.Marshal(e.Fields)
			tr.buf = append(tr.buf, `,"fields":`...)
			tr.buf = append(tr.buf, fb...)
		}
		tr.buf = append(tr.buf, `,"items":[`...)
		for i, it := range e.Items {
			inb := make([]byte, len(it.In))
			for j, x := range it.In {
				inb[j] = byte(x)
			}
			var enc, dec, dec2 []byte
			if e.Ty == "tuple" {
				// through the same tuple codec as the recorded run (concatenation by append to the first field's encoding)
				var sc Schema
				for _, f := range e.Fields {
					sc.Fields = append(sc.Fields, fieldCode(f.Ty, f.W))
				}
				codec := tupleCodec{sc}
				tp := rawToTupleRaw(sc, inb)
				ee, _ := codec.Transform(tp)
				enc = cloneB(ee)
				dec = tupleBits(sc, codec.Restore(ee))
				dec2 = tupleBits(sc, codec.Restore(ee))
			} else {
				t := pick(e.Ty, e.W)
				p := pattern(inb, e.W)
				ee := t.enc(p)
				enc = cloneB(ee)
				dec = be(t.dec(ee), e.W)
				dec2 = be(t.dec(ee), e.W)
			}
			if i > 0 {
				tr.buf = append(tr.buf, ',')
			}
			tr.buf = append(tr.buf, `{"in":`...)
			tr.rawBytes(inb)
			tr.buf = append(tr.buf, `,"enc":`...)
			tr.rawBytes(enc)
			tr.buf = append(tr.buf, `,"dec":`...)
			tr.rawBytes(dec)
			tr.buf = append(tr.buf, `,"dec2":`...)
			tr.rawBytes(dec2)
			tr.buf = append(tr.buf, '}')
		}
		tr.buf = append(tr.buf, ']')
		tr.emit()
	}
	tr.Close()
}

func fieldCode(ty string, w int) int {
	switch ty {
	case "u":
		return map[int]int{1: fU8, 2: fU16, 4: fU32, 8: fU64}[w]
	case "i":
		return map[int]int{1: fI8, 2: fI16, 4: fI32, 8: fI64}[w]
	case "f32":
		return fF32
	}
	return fF64
}

func init() { extraCmds["codecrun"] = cmdCodecRerun }
