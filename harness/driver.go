package main

import (
	"encoding/hex"
	"fmt"
	"hash/fnv"
	"iter"
	"math"
	"sort"

	art "github.com/Clement-Jean/go-art"
)

// UEntry is one key of a universe: original bytes (what the caller passes /
// gets back, rendered as bytes) and transformed bytes (what the radix tree
// branches on).  Rank = index+1 in the universe, assigned by the ORACLE
// comparator of the kind, never by the library's encoders.
type UEntry struct {
	O     []byte
	T     []byte
	Probe bool // probe-only: never inserted (absent keys, bounds, prefixes)
	Twin  bool // probe-only key that collates equal to the preceding storable key (not a Prefix probe)
}

// TreeDriver drives one real tree through ranks.
type TreeDriver interface {
	Name() string   // e.g. "alpha/string"
	Family() string // alpha | unsigned | signed | float | compound | collation
	Universe() []UEntry
	HasPrefix() bool
	HasRange() bool
	RangeOK(a, b int) bool // bound pair inside the property's domain
	Reset()
	Insert(k, v int)
	Search(k int) (int, bool)
	Delete(k int) bool
	Min() (int, int, bool)
	Max() (int, int, bool)
	// Seq builds ONE sequence value; the returned function ranges over that
	// same value each time it is called (re-iteration, C14).
	Seq(name string, a, b, n int) iter.Seq2[int, int]
	Size() int
	Dump() (*art.VerifNode, int)
	LeafRank(n *art.VerifNode) int
	ValID(v any) int
	NormVal(v int) int // the id a value made from v maps back to (zero-size types: constant)
	Tree() any
	Raw() []RawKey // the raw universe the driver was built from (for re-execution)
	setRaw([]RawKey)
}

type dumper interface {
	VerifDump() (*art.VerifNode, int)
}

// Driver is the generic implementation for key type K and value type V.
type Driver[K any, V any] struct {
	name, family string
	keys         []K
	uni          []UEntry
	index        map[string]int // identity -> rank
	tindex       map[string]int // transformed bytes -> rank
	ident        func(K) string
	newTree      func() art.Tree[K, V]
	tree         art.Tree[K, V]
	mkVal        func(int) V
	valID        func(V) int
	hasPrefix    bool
	hasRange     bool
	rangeOK      func(a, b K) bool
	emptyKey     func() (K, bool) // the "empty end bound" of byte-string trees
	passKey      func(K) K        // how a key is handed to the tree (fresh copy for slices)
	leafByT      bool             // identify leaves by transformed bytes (numeric, compound)
	raw          []RawKey
}

func (d *Driver[K, V]) Raw() []RawKey     { return d.raw }
func (d *Driver[K, V]) setRaw(r []RawKey) { d.raw = r }

func (d *Driver[K, V]) Name() string       { return d.name }
func (d *Driver[K, V]) Family() string     { return d.family }
func (d *Driver[K, V]) Universe() []UEntry { return d.uni }
func (d *Driver[K, V]) HasPrefix() bool    { return d.hasPrefix }
func (d *Driver[K, V]) HasRange() bool     { return d.hasRange }
func (d *Driver[K, V]) Tree() any          { return d.tree }
func (d *Driver[K, V]) Reset()             { d.tree = d.newTree() }
func (d *Driver[K, V]) Size() int          { return d.tree.Size() }

func (d *Driver[K, V]) key(k int) K {
	if d.passKey != nil {
		return d.passKey(d.keys[k-1])
	}
	return d.keys[k-1]
}

func (d *Driver[K, V]) rank(k K) int { return d.index[d.ident(k)] }

func (d *Driver[K, V]) RangeOK(a, b int) bool {
	if d.rangeOK == nil {
		return true
	}
	return d.rangeOK(d.keys[a-1], d.keys[b-1])
}

func (d *Driver[K, V]) Insert(k, v int) { d.tree.Insert(d.key(k), d.mkVal(v)) }

func (d *Driver[K, V]) Search(k int) (int, bool) {
	v, ok := d.tree.Search(d.key(k))
	if !ok {
		return 0, false
	}
	return d.valID(v), true
}

func (d *Driver[K, V]) Delete(k int) bool { return d.tree.Delete(d.key(k)) }

func (d *Driver[K, V]) Min() (int, int, bool) {
	k, v, ok := d.tree.Minimum()
	if !ok {
		return 0, 0, false
	}
	return d.rank(k), d.valID(v), true
}

func (d *Driver[K, V]) Max() (int, int, bool) {
	k, v, ok := d.tree.Maximum()
	if !ok {
		return 0, 0, false
	}
	return d.rank(k), d.valID(v), true
}

func (d *Driver[K, V]) Seq(name string, a, b, n int) iter.Seq2[int, int] {
	var s iter.Seq2[K, V]
	switch name {
	case "All":
		s = d.tree.All()
	case "Backward":
		s = d.tree.Backward()
	case "TopK":
		s = d.tree.TopK(hugeN(n))
	case "BottomK":
		s = d.tree.BottomK(hugeN(n))
	case "RangeAny": // any tree kind: Range as a sequence whose content is not specified (collation), for C14 only
		s = d.tree.Range(d.key(a), d.key(b))
	case "Range":
		if b == 0 { // open end: the empty key
			e, _ := d.emptyKey()
			s = d.tree.Range(d.key(a), e)
		} else {
			s = d.tree.Range(d.key(a), d.key(b))
		}
	case "Prefix":
		s = d.tree.Prefix(d.key(a))
	default:
		panic("unknown sequence " + name)
	}
	return func(yield func(int, int) bool) {
		for k, v := range s {
			if !yield(d.rank(k), d.valID(v)) {
				return
			}
		}
	}
}

func (d *Driver[K, V]) Dump() (*art.VerifNode, int) {
	return any(d.tree).(dumper).VerifDump()
}

func (d *Driver[K, V]) LeafRank(n *art.VerifNode) int {
	if d.leafByT {
		return d.tindex[string(n.TKey)]
	}
	return d.index[d.identFromLeaf(n)]
}

// identFromLeaf: identity string of a leaf holding original bytes.
func (d *Driver[K, V]) identFromLeaf(n *art.VerifNode) string {
	key := n.Key
	if d.family == "alpha" { // byte-string leaves carry the terminator
		if len(key) == 0 || key[len(key)-1] != 0 {
			return "\xff<bad-alpha-leaf>"
		}
		key = key[:len(key)-1]
	}
	return "b:" + string(key)
}

// setPassKeyBytes installs how []byte keys are handed to the tree (C13: arenas).
func (d *Driver[K, V]) setPassKeyBytes(f func([]byte) []byte) {
	if _, ok := any(d.keys).([][]byte); !ok {
		panic("kind " + d.name + " has no []byte keys")
	}
	d.passKey = func(k K) K { return any(f(any(k).([]byte))).(K) }
}

// yieldedBytes returns the raw []byte keys exactly as the tree's forward iterator yields them.
func (d *Driver[K, V]) yieldedBytes() [][]byte {
	var out [][]byte
	for k := range d.tree.All() {
		if b, ok := any(k).([]byte); ok {
			out = append(out, b)
		}
	}
	return out
}

func (d *Driver[K, V]) NormVal(v int) int { return d.valID(d.mkVal(v)) }

func (d *Driver[K, V]) ValID(v any) int {
	vv, ok := v.(V)
	if !ok {
		return -1
	}
	return d.valID(vv)
}

// hugeN: n >= 0 is itself; -1 is the largest uint, -2 is the smallest value that does not fit an int.
func hugeN(n int) uint {
	switch n {
	case -1:
		return math.MaxUint
	case -2:
		return uint(math.MaxInt) + 1
	}
	return uint(n)
}

// finish sorts nothing: keys must already be in oracle order and distinct.
func (d *Driver[K, V]) finish() {
	d.index = map[string]int{}
	d.tindex = map[string]int{}
	for i, k := range d.keys {
		id := d.ident(k)
		if _, dup := d.index[id]; dup {
			panic(fmt.Sprintf("universe of %s: duplicate key identity %q", d.name, id))
		}
		d.index[id] = i + 1
		d.tindex[string(d.uni[i].T)] = i + 1
	}
	d.Reset()
}

// ---- universe construction ---------------------------------------------------

type cand[K any] struct {
	k     K
	probe bool
	twin  bool // probe-only key that the oracle order cannot tell from its (storable) predecessor
}

// buildUniverse sorts candidates with the oracle comparator, drops candidates
// the oracle cannot tell apart from an earlier one, and returns them in rank order.
func buildUniverse[K any](cs []cand[K], cmp func(a, b K) int) ([]cand[K], int) {
	return buildUniverseT(cs, cmp, nil)
}

// buildUniverseT: twin(a, b) reports that two candidates the oracle order cannot tell apart are nevertheless
// different keys (different identity). A probe-only twin of a storable key is kept, right after it: it is never
// stored, so the order between the two never shows, but probing it must find nothing.
func buildUniverseT[K any](cs []cand[K], cmp func(a, b K) int, twin func(a, b K) bool) ([]cand[K], int) {
	sort.SliceStable(cs, func(i, j int) bool {
		if c := cmp(cs[i].k, cs[j].k); c != 0 {
			return c < 0
		}
		return !cs[i].probe && cs[j].probe // storable first
	})
	var out []cand[K]
	dropped := 0
	for _, c := range cs {
		if len(out) > 0 && cmp(out[len(out)-1].k, c.k) == 0 {
			if twin != nil && c.probe && twin(out[len(out)-1].k, c.k) {
				c.twin = true
				out = append(out, c)
				continue
			}
			// same key for the oracle: keep one; insertable wins over probe-only
			if out[len(out)-1].probe && !c.probe {
				out[len(out)-1] = c
			}
			dropped++
			continue
		}
		out = append(out, c)
	}
	return out, dropped
}

// ---- dump conversion and digests --------------------------------------------

type fnvw struct {
	h interface{ Write([]byte) (int, error) }
}

func digestDump(d TreeDriver, n *art.VerifNode, size int, withVals bool) string {
	h := fnv.New64a()
	var walk func(n *art.VerifNode)
	put := func(b ...byte) { h.Write(b) }
	putInt := func(x int) { put(byte(x), byte(x>>8), byte(x>>16), byte(x>>24)) }
	walk = func(n *art.VerifNode) {
		if n == nil {
			put(0xEE)
			return
		}
		put([]byte(n.Kind)...)
		put(0)
		if n.Kind == "leaf" {
			putInt(len(n.Key))
			put(n.Key...)
			putInt(len(n.TKey))
			put(n.TKey...)
			if withVals {
				putInt(d.ValID(n.Val))
			}
			return
		}
		putInt(n.N)
		putInt(n.Real)
		putInt(n.PLen)
		put(n.Pfx...)
		putInt(len(n.Lanes))
		put(n.Lanes...)
		putInt(len(n.Bytes))
		put(n.Bytes...)
		for _, c := range n.Ch {
			walk(c)
		}
	}
	putInt(size)
	walk(n)
	return hex.EncodeToString(h.Sum(nil))
}
