package main

import (
	"bufio"
	"encoding/json"
	"flag"
	"fmt"
	"math/rand"
	"os"
	"runtime"
	"runtime/debug"
	"strconv"
	"strings"
	"sync"

	art "github.com/Clement-Jean/go-art"
)

func envGC(tr *Trace) {
	runtime.GC()
	tr.start("GC")
	tr.emit()
}

// ---- value types (C18) ----------------------------------------------------------

type ptrVal struct {
	A int
	S string
}
type bigVal struct {
	ID  int
	Pad [25]uint64
}
type tailVal struct {
	Kind uint64
	Name string
	ID   int
	P    *int
}
type richVal struct {
	P *int
	L []string
	M string
}

func bigOf(i int) bigVal {
	var b bigVal
	b.ID = i
	for j := range b.Pad {
		b.Pad[j] = uint64(i)*0x9e3779b97f4a7c15 + uint64(j)
	}
	return b
}

// withVT instantiates f for the named value type.
func withVT(name string, f func(build func(kind string, raw []RawKey) TreeDriver)) {
	switch name {
	case "int":
		f(func(k string, r []RawKey) TreeDriver { return NewDriverV(k, r, intVT) })
	case "string":
		vt := valType[string]{"string", func(i int) string { return "v" + strconv.Itoa(i) }, func(s string) int {
			n, err := strconv.Atoi(strings.TrimPrefix(s, "v"))
			if err != nil || !strings.HasPrefix(s, "v") {
				return -1
			}
			return n
		}}
		f(func(k string, r []RawKey) TreeDriver { return NewDriverV(k, r, vt) })
	case "ptr":
		vt := valType[*ptrVal]{"ptr", func(i int) *ptrVal { return &ptrVal{A: i, S: strconv.Itoa(i)} }, func(p *ptrVal) int {
			if p == nil || p.S != strconv.Itoa(p.A) {
				return -1
			}
			return p.A
		}}
		f(func(k string, r []RawKey) TreeDriver { return NewDriverV(k, r, vt) })
	case "bytes":
		vt := valType[[]byte]{"bytes", func(i int) []byte { return []byte("v" + strconv.Itoa(i)) }, func(b []byte) int {
			s := string(b)
			n, err := strconv.Atoi(strings.TrimPrefix(s, "v"))
			if err != nil || !strings.HasPrefix(s, "v") {
				return -1
			}
			return n
		}}
		f(func(k string, r []RawKey) TreeDriver { return NewDriverV(k, r, vt) })
	case "zero":
		vt := valType[struct{}]{"zero", func(i int) struct{} { return struct{}{} }, func(struct{}) int { return 1 }}
		f(func(k string, r []RawKey) TreeDriver { return NewDriverV(k, r, vt) })
	case "big":
		vt := valType[bigVal]{"big", bigOf, func(b bigVal) int {
			if b != bigOf(b.ID) {
				return -1
			}
			return b.ID
		}}
		f(func(k string, r []RawKey) TreeDriver { return NewDriverV(k, r, vt) })
	case "rich":
		vt := valType[richVal]{"rich", func(i int) richVal {
			x := i
			return richVal{P: &x, L: []string{strconv.Itoa(i), "x"}, M: fmt.Sprint("m", i)}
		}, func(v richVal) int {
			if v.P == nil || len(v.L) != 2 || v.L[0] != strconv.Itoa(*v.P) || v.L[1] != "x" || v.M != fmt.Sprint("m", *v.P) {
				return -1
			}
			return *v.P
		}}
		f(func(k string, r []RawKey) TreeDriver { return NewDriverV(k, r, vt) })
	case "tail":
		// a value wider than a word whose FIRST word is the same for every value: what distinguishes two values lies behind it
		vt := valType[tailVal]{"tail", func(i int) tailVal {
			x := i
			return tailVal{Kind: 0xC0FFEE, Name: "t" + strconv.Itoa(i), ID: i, P: &x}
		}, func(v tailVal) int {
			if v.Kind != 0xC0FFEE || v.P == nil || *v.P != v.ID || v.Name != "t"+strconv.Itoa(v.ID) {
				return -1
			}
			return v.ID
		}}
		f(func(k string, r []RawKey) TreeDriver { return NewDriverV(k, r, vt) })
	default:
		fatal("unknown value type %q", name)
	}
}

var valueTypes = []string{"int", "string", "ptr", "bytes", "zero", "big", "rich"}

// cmdGC (C18): value-type matrix under aggressive collection. Built with checkptr by the check.
func cmdGC(args []string) {
	fs := flag.NewFlagSet("gc", flag.ExitOnError)
	kind := fs.String("kind", "alpha/string", "")
	uname := fs.String("u", "random", "")
	vtn := fs.String("vt", "ptr", "")
	seed := fs.Int64("seed", 1, "")
	out := fs.String("out", "gc.ndjson", "")
	n := fs.Int("n", 3, "")
	length := fs.Int("len", 80, "")
	stats := fs.String("stats", "", "")
	fs.Parse(args)
	debug.SetGCPercent(1)
	withVT(*vtn, func(build func(string, []RawKey) TreeDriver) {
		d := build(*kind, rawFor(*kind, *uname, "q", *seed))
		tr := NewTrace(*out)
		rec := NewRec(d, 1, tr, *seed)
		r := rand.New(rand.NewSource(*seed*31 + 5))
		uni := d.Universe()
		var ins []int
		for i, e := range uni {
			if !e.Probe {
				ins = append(ins, i+1)
			}
		}
		// []byte keys: every key travels through ONE buffer that is refilled for the next key (scanner idiom): what the
		// tree stores must stay intact when the collector runs and the caller's buffer moves on
		if setter, ok := d.(interface{ setPassKeyBytes(func([]byte) []byte) }); ok && strings.Contains(d.Name(), "bytes") {
			scan := make([]byte, 256)
			n2 := 0
			setter.setPassKeyBytes(func(k []byte) []byte {
				n2++
				if n2%2 == 0 || len(k) > len(scan) {
					return cloneB(k) // a second key of the same call, or a key too long for the buffer
				}
				for i := range scan {
					scan[i] = byte(0x5a ^ n2)
				}
				copy(scan, k)
				return scan[:len(k)]
			})
		}
		bt := Battery{Search: true, Iter: true, MinMax: true, TopK: true, Range: 6, Prefix: 3}
		// garbage pressure: allocate and drop while the tree is used
		var junk [][]byte
		for h := 0; h < *n; h++ {
			if h > 0 {
				rec.Clear()
			}
			for i := 0; i < *length && !rec.Dead; i++ {
				if r.Intn(100) < 60 {
					rec.Insert(ins[r.Intn(len(ins))])
				} else {
					rec.Delete(ins[r.Intn(len(ins))])
				}
				junk = append(junk, make([]byte, 64+r.Intn(4096)))
				if len(junk) > 32 {
					junk = junk[16:]
				}
				if i%3 == 0 {
					envGC(tr)
				}
				if i%4 == 3 {
					rec.RunBattery(bt)
				}
			}
			envGC(tr)
			envGC(tr)
			rec.RunBattery(bt)
		}
		tr.Close()
		writeStats(*stats, Stats{Cmd: "gc", Kind: d.Name() + "/" + *vtn, Lines: tr.Lines, Ops: rec.Ops, Segments: *n,
			Digests: len(rec.Digests), Panics: rec.Panics, Samples: []string{d.Name() + " values=" + *vtn}})
	})
}

// ---- multi-tree interleavings (C12) -----------------------------------------------------

// cmdMulti replays interleaved histories [[t,op,k],...] over several real trees of
// mixed kinds on ONE goroutine; k indexes the insertable keys of tree t.
func cmdMulti(args []string) {
	fs := flag.NewFlagSet("multi", flag.ExitOnError)
	kinds := fs.String("kinds", "uint8:fan1,alpha/string:fan1x,int8:fan1,alpha/bytes:fan2", "kind:universe per tree")
	in := fs.String("in", "", "interleavings from the model (ndjson {hist:[[t,op,k]...]}); empty = generate")
	seed := fs.Int64("seed", 1, "")
	out := fs.String("out", "multi.ndjson", "")
	n := fs.Int("n", 2, "generated interleavings when -in is empty")
	length := fs.Int("len", 1500, "")
	batEvery := fs.Int("batevery", 25, "")
	audit := fs.Bool("audit", true, "pool audit (diagnostic note lines)")
	stats := fs.String("stats", "", "")
	fs.Parse(args)
	var ds []TreeDriver
	for _, ku := range strings.Split(*kinds, ",") {
		k, u, _ := strings.Cut(ku, ":")
		ds = append(ds, buildDriver(k, u, "q", *seed))
	}
	tr := NewTrace(*out)
	st := Stats{Cmd: "multi", Kind: *kinds}
	bt := Battery{Search: false, Iter: true, MinMax: true, Dump: true}
	btFull := Battery{Search: true, Iter: true, MinMax: true, Dump: true}
	run := func(hist [][3]int) {
		tr.Reset()
		recs := make([]*Rec, len(ds))
		ins := make([][]int, len(ds))
		for i, d := range ds {
			recs[i] = NewRec(d, i+1, tr, *seed+int64(i))
			recs[i].DumpAll = false
			for j, e := range d.Universe() {
				if !e.Probe {
					ins[i] = append(ins[i], j+1)
				}
			}
		}
		for step, o := range hist {
			t := o[0] - 1
			if t < 0 || t >= len(ds) {
				fatal("tree index %d out of range", o[0])
			}
			k := ins[t][(o[2]-1)%len(ins[t])]
			recs[t].DumpAll = step%7 == 0
			if o[1] == 1 {
				recs[t].Insert(k)
			} else {
				recs[t].Delete(k)
			}
			if recs[t].Ops > 0 && recs[t].D.Size() == 0 {
				recs[t].RunBattery(btFull) // emptied: must behave like a new tree from now on
			}
			if (step+1)%*batEvery == 0 {
				for _, r := range recs {
					r.RunBattery(bt)
				}
				if *audit {
					seen, dirty := art.VerifPoolAudit()
					tr.Note(fmt.Sprintf("pool audit seen=%v dirty=%v", seen, dirty))
					st.Extra["pool_dirty"] += dirty[0] + dirty[1] + dirty[2] + dirty[3]
					st.Extra["pool_seen"] += seen[0] + seen[1] + seen[2] + seen[3]
				}
			}
		}
		for _, r := range recs {
			r.RunBattery(btFull)
			st.Ops += r.Ops
			st.Panics += r.Panics
			st.Digests += len(r.Digests)
		}
		st.Segments++
	}
	st.Extra = map[string]int{}
	if *in != "" {
		f, err := os.Open(*in)
		if err != nil {
			fatal("%v", err)
		}
		sc := bufio.NewScanner(f)
		sc.Buffer(make([]byte, 1<<20), 1<<28)
		for sc.Scan() {
			var e struct {
				Hist [][3]int `json:"hist"`
			}
			if json.Unmarshal(sc.Bytes(), &e) != nil || len(e.Hist) == 0 {
				continue
			}
			run(e.Hist)
			if len(st.Samples) < 2 {
				st.Samples = append(st.Samples, fmt.Sprint(e.Hist[:min(len(e.Hist), 30)]))
			}
		}
		f.Close()
	} else {
		r := rand.New(rand.NewSource(*seed))
		for h := 0; h < *n; h++ {
			// per-tree ramps with different periods: one tree grows while another shrinks
			var hist [][3]int
			present := make([]map[int]bool, len(ds))
			up := make([]bool, len(ds))
			for i := range present {
				present[i] = map[int]bool{}
				up[i] = i%2 == 0
			}
			for s := 0; s < *length; s++ {
				t := r.Intn(len(ds))
				ni := 0
				for _, e := range ds[t].Universe() {
					if !e.Probe {
						ni++
					}
				}
				if len(present[t]) >= ni {
					up[t] = false
				}
				if len(present[t]) == 0 {
					up[t] = true
				}
				doIns := up[t]
				if r.Intn(8) == 0 {
					doIns = !doIns
				}
				k := 1 + r.Intn(ni)
				if doIns {
					present[t][k] = true
					hist = append(hist, [3]int{t + 1, 1, k})
				} else {
					// prefer a present key
					for kk := range present[t] {
						k = kk
						break
					}
					delete(present[t], k)
					hist = append(hist, [3]int{t + 1, 2, k})
				}
			}
			run(hist)
			if len(st.Samples) < 2 {
				st.Samples = append(st.Samples, fmt.Sprint(hist[:30]))
			}
		}
	}
	tr.Close()
	st.Lines = tr.Lines
	writeStats(*stats, st)
}

// ---- caller memory (C13) -----------------------------------------------------------------

type arenaState struct {
	buf        []byte // full capacity
	before     []byte
	used       bool
	noScribble bool // memory handed out by the tree's iterator: compared, not overwritten
	record     bool // record idiom: further keys of the same call follow at recOff
	recOff     int
}

// cmdArena: []byte keys handed over as sub-slices of arenas (spare capacity with live
// data, exactly full, one reused scanner-style buffer); after each call the arena is
// compared with its content before the call, then scribbled over.
func cmdArena(args []string) {
	fs := flag.NewFlagSet("arena", flag.ExitOnError)
	kind := fs.String("kind", "alpha/bytes", "alpha/bytes or collation/bytes/<collator>")
	uname := fs.String("u", "random", "")
	seed := fs.Int64("seed", 1, "")
	out := fs.String("out", "arena.ndjson", "")
	n := fs.Int("n", 4, "")
	length := fs.Int("len", 60, "")
	stats := fs.String("stats", "", "")
	bat := fs.String("battery", "search,iter,minmax,range=6,prefix=4,dump", "")
	fs.Parse(args)
	d := buildDriver(*kind, *uname, "q", *seed)
	setter, ok := d.(interface{ setPassKeyBytes(func([]byte) []byte) })
	if !ok {
		fatal("kind %s has no []byte keys", *kind)
	}
	tr := NewTrace(*out)
	r := rand.New(rand.NewSource(*seed*13 + 1))
	var cur []*arenaState
	scanner := make([]byte, 64) // one buffer reused for successive keys
	mode := 0
	setter.setPassKeyBytes(func(k []byte) []byte {
		var a *arenaState
		var key []byte
		m := mode % 6
		if m == 2 && len(cur) > 0 {
			m = 0 // a second key of the same call (Range) cannot share the scanner buffer
		}
		if m == 5 {
			// record idiom: the keys of one call are adjacent fields of ONE buffer (start | end | rest of the record)
			if len(cur) > 0 && cur[len(cur)-1].record {
				prev := cur[len(cur)-1]
				off := prev.recOff
				if off+len(k) <= cap(prev.buf) {
					full := prev.buf[:cap(prev.buf)]
					copy(full[off:], k)
					prev.before = cloneB(full) // the caller filled in the second field before the call
					prev.recOff = off + len(k)
					return full[off : off+len(k)]
				}
			}
			buf := make([]byte, 2*len(k)+24)
			for i := range buf {
				buf[i] = byte('r' + i%7)
			}
			copy(buf, k)
			a = &arenaState{buf: buf, record: true, recOff: len(k)}
			a.before = cloneB(buf)
			cur = append(cur, a)
			return buf[:len(k)]
		}
		if m == 4 {
			// a key the tree itself yielded earlier, cut down to k: its capacity runs on into whatever the
			// iterator handed out
			m = 0
			if y, ok := d.(interface{ yieldedBytes() [][]byte }); ok {
				for _, yk := range y.yieldedBytes() {
					if len(yk) > len(k) && string(yk[:len(k)]) == string(k) {
						a = &arenaState{buf: yk[:len(k)]}
						key = yk[:len(k)]
						a.before = cloneB(a.buf[:cap(a.buf)])
						a.noScribble = true
						cur = append(cur, a)
						return key
					}
				}
			}
		}
		switch m {
		case 3: // sub-slice of a freshly made (zero-filled) buffer with spare capacity
			buf := make([]byte, len(k), len(k)+1+r.Intn(8))
			copy(buf, k)
			key = buf
			a = &arenaState{buf: buf}
		case 0: // sub-slice with spare capacity holding live caller data
			off := r.Intn(4)
			buf := make([]byte, off+len(k)+1+r.Intn(8))
			for i := range buf {
				buf[i] = byte(0xA0 + i%16)
			}
			copy(buf[off:], k)
			key = buf[off : off+len(k)]
			a = &arenaState{buf: buf}
		case 1: // exactly full
			buf := make([]byte, len(k))
			copy(buf, k)
			key = buf
			a = &arenaState{buf: buf}
		default: // scanner idiom
			for i := range scanner {
				scanner[i] = byte(0xC0 + i%8)
			}
			if len(k) > len(scanner) {
				scanner = make([]byte, 2*len(k))
			}
			copy(scanner, k)
			key = scanner[:len(k)]
			a = &arenaState{buf: scanner}
		}
		a.before = cloneB(a.buf[:cap(a.buf)])
		cur = append(cur, a)
		return key
	})
	rec := NewRec(d, 1, tr, *seed)
	arenas := 0
	flush := func() {
		for _, a := range cur {
			tr.start("Arena")
			tr.fBytes("before", a.before)
			tr.fBytes("after", a.buf[:cap(a.buf)])
			tr.emit()
			arenas++
			if a.noScribble {
				continue
			}
			// the caller now reuses its buffer
			for i := range a.buf[:cap(a.buf)] {
				a.buf[:cap(a.buf)][i] = byte(0x55 ^ i)
			}
			tr.start("Scribble")
			tr.emit()
		}
		cur = cur[:0]
	}
	rec.PostCall = flush
	// a sequence method has returned: the caller may reuse its buffers BEFORE it ranges over the sequence,
	// and between two passes over it
	rec.AfterCreate = func() {
		if r.Intn(2) == 0 {
			flush()
		}
	}
	rec.BetweenPasses = flush
	rec.NoBatch = true
	uni := d.Universe()
	var ins []int
	for i, e := range uni {
		if !e.Probe {
			ins = append(ins, i+1)
		}
	}
	bt := parseBattery(*bat)
	// Range of a collation tree has no map-level meaning, but it must not depend on what the caller does with the
	// buffers of the bounds after Range has returned: the same call, once with untouched private bounds and once with
	// bounds whose buffers are overwritten before the sequence is ranged over
	sameRange := func() {
		if d.HasRange() || rec.Dead {
			return
		}
		nk := len(uni)
		a, b := 1+r.Intn(nk), 1+r.Intn(nk)
		if r.Intn(3) == 0 {
			b = a
		}
		collect := func(scribble bool) (ks []int) {
			guard(func() {
				s := d.Seq("RangeAny", a, b, 0)
				if scribble {
					flush()
				} else {
					cur = cur[:0]
				}
				for k := range s {
					ks = append(ks, k)
				}
			})
			return
		}
		saved := mode
		mode = 1 // private exact copies
		x := collect(false)
		mode = []int{0, 2, 3, 5}[r.Intn(4)]
		y := collect(true)
		mode = saved
		tr.start("Same")
		tr.fStr("what", "Range")
		tr.fInt("a", a)
		tr.fInt("b", b)
		tr.fInts("x", x)
		tr.fInts("y", y)
		tr.emit()
	}
	for h := 0; h < *n; h++ {
		if h > 0 {
			rec.Clear()
		}
		for i := 0; i < *length && !rec.Dead; i++ {
			if i%3 == 2 {
				sameRange()
			}
			if i%4 == 0 || r.Intn(3) == 0 {
				mode = r.Intn(6) // runs of consecutive calls in the same idiom (scanner buffer reused key after key)
			}
			if r.Intn(100) < 65 {
				rec.Insert(ins[r.Intn(len(ins))])
			} else {
				rec.Delete(1 + r.Intn(len(uni)))
			}
			if i%5 == 4 {
				rec.RunBattery(bt)
			}
		}
		rec.RunBattery(bt)
	}
	tr.Close()
	writeStats(*stats, Stats{Cmd: "arena", Kind: d.Name(), Lines: tr.Lines, Ops: rec.Ops, Segments: *n, Digests: len(rec.Digests),
		Panics: rec.Panics, Extra: map[string]int{"arena_checks": arenas}, Samples: []string{d.Name() + ": sub-slice / exact / scanner-buffer keys"}})
}

// ---- concurrency (C16) ---------------------------------------------------------------------

// cmdConc: G goroutines each run a history on a PRIVATE tree (heavy grow/shrink churn so
// the shared pools are busy), then many goroutines query one quiescent SHARED tree.
// Every goroutine writes its own trace. Built with -race by the check.
func cmdConc(args []string) {
	fs := flag.NewFlagSet("conc", flag.ExitOnError)
	seed := fs.Int64("seed", 1, "")
	out := fs.String("out", "conc", "trace prefix: out.<g>.ndjson")
	g := fs.Int("g", 8, "")
	length := fs.Int("len", 400, "")
	procs := fs.Int("procs", 4, "")
	shared := fs.String("shared", "alpha/string:fan2,uint16:random,float64:random,alpha/string:long,alpha/bytes:vlong", "kinds of the shared read-only trees")
	stats := fs.String("stats", "", "")
	fs.Parse(args)
	runtime.GOMAXPROCS(*procs)
	// short fill/drain cycles: every goroutine releases and acquires nodes of every class many times
	privKinds := []string{"uint8:fan64", "alpha/string:fanb", "int8:fan64", "alpha/bytes:fan64", "uint16:fanb", "alpha/string:fan18",
		"collation/runes/und:han", "compound/u8+u8:tuple", "collation/runes/und:text", "float32:random", "alpha/bytes:fan2", "uint8:fan1",
		"collation/string/und:han", "uint16:random"}
	// ("collation/runes/..." trees are built WITHOUT WithCollator: they use the library's default collator)
	var wg sync.WaitGroup
	type res struct{ lines, ops, panics int }
	results := make([]res, 0)
	var mu sync.Mutex
	files := 0
	// phase 1: private trees
	for i := 0; i < *g; i++ {
		ku := privKinds[i%len(privKinds)]
		k, u, _ := strings.Cut(ku, ":")
		d := buildDriver(k, u, "q", *seed+int64(i))
		tr := NewTrace(fmt.Sprintf("%s.%d.ndjson", *out, files))
		files++
		wg.Add(1)
		go func(i int, d TreeDriver, tr *Trace) {
			defer wg.Done()
			rec := NewRec(d, 1, tr, *seed+int64(i))
			rec.DumpAll = false
			rec.Light = true
			r := rand.New(rand.NewSource(*seed*101 + int64(i)))
			var ins []int
			for j, e := range d.Universe() {
				if !e.Probe {
					ins = append(ins, j+1)
				}
			}
			up := true
			cnt := 0
			present := map[int]bool{}
			// most goroutines oscillate between a low-water mark and full, so that grow and shrink thresholds are
			// crossed (and nodes released and acquired) every few dozen operations
			low := []int{0, 20, 40, 8}[i%4]
			if low >= len(ins)-4 {
				low = 0
			}
			bt := Battery{Iter: true, MinMax: true}
			for s := 0; s < *length && !rec.Dead; s++ {
				if cnt >= len(ins) {
					up = false
				}
				if cnt <= low {
					up = true
				}
				doIns := up
				if r.Intn(7) == 0 {
					doIns = !doIns
				}
				// mostly an absent key when inserting and a present one when deleting, so that the fill level really moves
				k := ins[r.Intn(len(ins))]
				for try := 0; try < 8 && present[k] == doIns && r.Intn(10) > 0; try++ {
					k = ins[r.Intn(len(ins))]
				}
				if doIns {
					rec.Insert(k)
					present[k] = true
				} else {
					rec.Delete(k)
					delete(present, k)
				}
				cnt = len(present)
				if s%5 == 0 {
					runtime.Gosched()
				}
				if s%40 == 39 {
					rec.DumpAll = true
					rec.RunBattery(bt)
					rec.DumpAll = false
				}
			}
			rec.RunBattery(Battery{Search: true, Iter: true, MinMax: true, Dump: true})
			tr.Close()
			mu.Lock()
			results = append(results, res{tr.Lines, rec.Ops, rec.Panics})
			mu.Unlock()
		}(i, d, tr)
	}
	wg.Wait()
	// phase 2: shared quiescent trees, concurrent readers. The builder's lines are copied
	// in front of every reader's own lines so that each trace is self-contained.
	for si, ku := range strings.Split(*shared, ",") {
		k, u, _ := strings.Cut(ku, ":")
		d := buildDriver(k, u, "q", *seed+int64(si))
		base := fmt.Sprintf("%s.shared%d.build.ndjson", *out, si)
		btr := NewTrace(base)
		brec := NewRec(d, 1, btr, *seed)
		brec.DumpAll = false
		r := rand.New(rand.NewSource(*seed + int64(si)))
		var ins []int
		for j, e := range d.Universe() {
			if !e.Probe {
				ins = append(ins, j+1)
			}
		}
		for s := 0; s < 3*len(ins); s++ {
			if r.Intn(4) > 0 {
				brec.Insert(ins[r.Intn(len(ins))])
			} else {
				brec.Delete(ins[r.Intn(len(ins))])
			}
		}
		btr.Close()
		prefix, _ := os.ReadFile(base)
		os.Remove(base)
		var wg2 sync.WaitGroup
		for i := 0; i < *g; i++ {
			tr := NewTrace(fmt.Sprintf("%s.%d.ndjson", *out, files))
			files++
			tr.w.Write(prefix)
			tr.Lines += strings.Count(string(prefix), "\n")
			wg2.Add(1)
			go func(i int, tr *Trace) {
				defer wg2.Done()
				// a reader has its own Rec (own PRNG, own log) over the SAME driver and tree
				rec := &Rec{D: d, T: 1, Tr: tr, R: rand.New(rand.NewSource(*seed*7 + int64(i))), Digests: map[string]struct{}{}}
				bt := Battery{Search: true, Iter: true, MinMax: true, TopK: true, Range: 8, Prefix: 4, IterChk: 1}
				for s := 0; s < 6; s++ {
					rec.RunBattery(bt)
					runtime.Gosched()
				}
				tr.Close()
				mu.Lock()
				results = append(results, res{tr.Lines, rec.Ops, rec.Panics})
				mu.Unlock()
			}(i, tr)
		}
		wg2.Wait()
	}
	st := Stats{Cmd: "conc", Segments: files, Extra: map[string]int{"files": files, "procs": *procs, "goroutines": *g}}
	for _, r := range results {
		st.Lines += r.lines
		st.Ops += r.ops
		st.Panics += r.panics
	}
	st.Samples = []string{fmt.Sprintf("%d goroutines on private trees (%s), then %d readers on each shared tree (%s)", *g, strings.Join(privKinds[:min(*g, len(privKinds))], " "), *g, *shared)}
	writeStats(*stats, st)
}

// ---- retained memory (C17) ------------------------------------------------------------------

func liveHeap() int {
	runtime.GC()
	runtime.GC()
	var m runtime.MemStats
	runtime.ReadMemStats(&m)
	return int(m.HeapAlloc)
}

// cmdMem: long histories on a bounded key set in a dedicated process; checkpoints log the
// live heap after two forced collections.
func cmdMem(args []string) {
	fs := flag.NewFlagSet("mem", flag.ExitOnError)
	kind := fs.String("kind", "alpha/string", "")
	uname := fs.String("u", "random", "")
	seed := fs.Int64("seed", 1, "")
	out := fs.String("out", "mem.ndjson", "")
	ops := fs.Int("ops", 100000, "operations per phase")
	stats := fs.String("stats", "", "")
	fs.Parse(args)
	d := buildDriver(*kind, *uname, "t", *seed)
	tr := NewTrace(*out)
	rec := NewRec(d, 1, tr, *seed)
	rec.DumpAll = false
	r := rand.New(rand.NewSource(*seed))
	uni := d.Universe()
	var ins []int
	content := 0
	for i, e := range uni {
		if !e.Probe {
			ins = append(ins, i+1)
			content += len(e.O) + len(e.T)
		}
	}
	cp := func(phase string, first bool, done int, grown int) {
		h := liveHeap()
		tr.start("Checkpoint")
		tr.fInt("t", 1)
		tr.fStr("phase", phase)
		tr.fBool("first", first)
		tr.fInt("ops", done)
		tr.fInt("heap", h)
		tr.fInt("grown", grown)
		tr.emit()
	}
	empty0 := liveHeap()
	_ = empty0
	cp("empty", true, 0, 0)
	for _, k := range ins {
		rec.Insert(k)
	}
	rec.RunBattery(Battery{Search: true, Iter: true})
	// phase 1: queries on an unchanged tree (not logged one by one: 10^5..10^7 calls)
	cp("queries", true, 0, 0)
	for c := 0; c < 4; c++ {
		for i := 0; i < *ops/4; i++ {
			k := 1 + r.Intn(len(uni))
			switch i % 8 {
			case 3:
				for range d.Seq("TopK", 0, 0, 3) {
				}
				for range d.Seq("BottomK", 0, 0, 2) {
					break
				}
			case 4:
				for range d.Seq("All", 0, 0, 0) {
					break
				}
				for range d.Seq("Backward", 0, 0, 0) {
					break
				}
			case 0:
				d.Min()
			case 1:
				if d.HasPrefix() {
					for range d.Seq("Prefix", k, 0, 0) {
						break
					}
				}
			case 2:
				if d.HasRange() && d.RangeOK(k, k) {
					for range d.Seq("Range", k, 1+r.Intn(len(uni)), 0) {
						break
					}
				} else if !d.HasRange() {
					for range d.Seq("RangeAny", k, 1+r.Intn(len(uni)), 0) {
						break
					}
				}
			default:
				d.Search(k)
			}
		}
		cp("queries", false, (c+1)**ops/4, 0)
	}
	// phase 1b: long runs of ONE kind of query each (a buffer that only some other call resets grows here)
	pure := []struct {
		name string
		f    func(k int)
	}{
		{"q-search", func(k int) { d.Search(k) }},
		{"q-range", func(k int) {
			name := "Range"
			if !d.HasRange() {
				name = "RangeAny"
			} else if !d.RangeOK(k, k) {
				return
			}
			for range d.Seq(name, k, 1+r.Intn(len(uni)), 0) {
				break
			}
		}},
		{"q-prefix", func(k int) {
			if d.HasPrefix() {
				for range d.Seq("Prefix", k, 0, 0) {
					break
				}
			}
		}},
		{"q-ends", func(k int) {
			d.Min()
			d.Max()
			for range d.Seq("TopK", 0, 0, 1+k%3) {
			}
			for range d.Seq("BottomK", 0, 0, 1+k%3) {
			}
		}},
		{"q-ends-stopped", func(k int) {
			// the consumer leaves before the k-th element
			for range d.Seq("TopK", 0, 0, 4+k%3) {
				break
			}
			n := 0
			for range d.Seq("BottomK", 0, 0, 4+k%3) {
				if n++; n == 2 {
					break
				}
			}
		}},
		{"q-walk", func(k int) {
			n := 0
			for range d.Seq("All", 0, 0, 0) {
				if n++; n > k%7 {
					break
				}
			}
			for range d.Seq("Backward", 0, 0, 0) {
				if n++; n > k%11 {
					break
				}
			}
		}},
	}
	for _, pr := range pure {
		cp(pr.name, true, 0, 0)
		for c := 0; c < 2; c++ {
			for i := 0; i < *ops/4; i++ {
				pr.f(1 + r.Intn(len(uni)))
			}
			cp(pr.name, false, (c+1)**ops/4, 0)
		}
	}
	// phase 2: overwrites of present keys
	cp("overwrites", true, 0, 0)
	for c := 0; c < 4; c++ {
		for i := 0; i < *ops/4; i++ {
			d.Insert(ins[r.Intn(len(ins))], 1+i%1000)
		}
		cp("overwrites", false, (c+1)**ops/4, 0)
	}
	// phase 3: delete / re-insert churn over the bounded key set
	cp("churn", true, 0, 0)
	for c := 0; c < 4; c++ {
		for i := 0; i < *ops/4; i++ {
			k := ins[r.Intn(len(ins))]
			if r.Intn(2) == 0 {
				d.Delete(k)
			} else {
				d.Insert(k, 1+i%1000)
			}
		}
		cp("churn", false, (c+1)**ops/4, content)
	}
	// the unlogged phases end with every key present again (as the logged state has it);
	// then every key is overwritten through the recorder so that values agree too
	for _, k := range ins {
		d.Insert(k, 1)
	}
	for _, k := range ins {
		rec.Insert(k)
	}
	rec.RunBattery(Battery{Search: true, Iter: true})
	// phase 4: delete everything: only a small constant may remain
	for _, k := range ins {
		rec.Delete(k)
	}
	rec.RunBattery(Battery{Iter: true, Dump: true})
	tr.start("Checkpoint")
	tr.fInt("t", 1)
	tr.fStr("phase", "emptied")
	tr.fBool("first", false)
	tr.fInt("ops", len(ins))
	tr.fInt("heap", liveHeap())
	tr.fInt("grown", 0)
	tr.emit()
	// bulk phase (not logged call by call): a DENSE tree with many nodes of every class is built and emptied three
	// times; what stays alive afterwards may not depend on how large the tree once was. Judged as tree 2.
	bulk := func(fill func(n int), drain func(n int), keep any) {
		const n = 1 << 17
		bcp := func(phase string, first bool, done int) {
			tr.start("Checkpoint")
			tr.fInt("t", 2)
			tr.fStr("phase", phase)
			tr.fBool("first", first)
			tr.fInt("ops", done)
			tr.fInt("heap", liveHeap())
			tr.fInt("grown", 0)
			tr.emit()
		}
		bcp("empty", true, 0)
		for round := 1; round <= 3; round++ {
			fill(n)
			drain(n)
			bcp("emptied", false, 2*n*round)
		}
		runtime.KeepAlive(keep)
	}
	switch d.Name() {
	case "uint32":
		bt := art.NewUnsignedBinaryTree[uint32, int]()
		bulk(func(n int) {
			for i := 0; i < n; i++ {
				bt.Insert(uint32(i), i)
			}
		}, func(n int) {
			for i := 0; i < n; i++ {
				bt.Delete(uint32((i * 7919) % n))
			}
			for i := 0; i < n; i++ {
				bt.Delete(uint32(i))
			}
		}, bt)
	case "alpha/string":
		bt := art.NewAlphaSortedTree[string, int]()
		bulk(func(n int) {
			for i := 0; i < n; i++ {
				bt.Insert(fmt.Sprintf("key/%02x/%04x", i%251, i), i)
			}
		}, func(n int) {
			for i := 0; i < n; i++ {
				bt.Delete(fmt.Sprintf("key/%02x/%04x", i%251, i))
			}
		}, bt)
	case "alpha/bytes":
		// groups of one short key and two keys below a long compressed path; the short sibling is deleted first
		bt := art.NewAlphaSortedTree[[]byte, int]()
		bulk(func(n int) {
			for i := 0; i < n/8; i++ {
				g := fmt.Sprintf("G%05x", i)
				bt.Insert([]byte(g+"a"), i)
				bt.Insert([]byte(g+"b0123456789xy1"), i)
				bt.Insert([]byte(g+"b0123456789xy2"), i)
			}
		}, func(n int) {
			for i := 0; i < n/8; i++ {
				g := fmt.Sprintf("G%05x", i)
				bt.Delete([]byte(g + "a"))
				bt.Delete([]byte(g + "b0123456789xy1"))
				bt.Delete([]byte(g + "b0123456789xy2"))
			}
		}, bt)
	case "uint64":
		bt := art.NewUnsignedBinaryTree[uint64, int]()
		bulk(func(n int) {
			for i := 0; i < n; i++ {
				bt.Insert(uint64(i)<<8|uint64(i%256), i)
			}
		}, func(n int) {
			for i := 0; i < n; i++ {
				bt.Delete(uint64(i)<<8 | uint64(i%256))
			}
		}, bt)
	}
	// window phase (not logged call by call): a sliding window over FRESH keys at a bounded live size - groups of siblings
	// are inserted, deleted in varying orders (largest first, smallest first, inside out, random) and never seen again.
	// Nothing of a deleted group may stay behind. Judged as tree 3.
	window := func(ins func(g, j int), del func(g, j int), miss func(i int), keep any) {
		wcp := func(phase string, first bool, done int) {
			tr.start("Checkpoint")
			tr.fInt("t", 3)
			tr.fStr("phase", phase)
			tr.fBool("first", first)
			tr.fInt("ops", done)
			tr.fInt("heap", liveHeap())
			tr.fInt("grown", 0)
			tr.emit()
		}
		sizes := []int{5, 3, 4, 17, 5, 20, 2, 50, 5, 13}
		round := func(g int) int {
			n := sizes[g%len(sizes)]
			order := make([]int, n)
			for j := range order {
				order[j] = j
			}
			switch (g / len(sizes)) % 4 {
			case 0: // first, last, then the rest ascending
				order[1], order[n-1] = order[n-1], order[1]
			case 1: // descending
				for a, b := 0, n-1; a < b; a, b = a+1, b-1 {
					order[a], order[b] = order[b], order[a]
				}
			case 2:
				r.Shuffle(n, func(a, b int) { order[a], order[b] = order[b], order[a] })
			}
			for j := 0; j < n; j++ {
				ins(g, j)
			}
			for _, j := range order {
				del(g, j)
			}
			return 2 * n
		}
		done, g := 0, 0
		for ; done < *ops/20; g++ { // warm-up: pools and size classes settle
			done += round(g)
		}
		wcp("window", true, done)
		for c := 0; c < 4; c++ {
			for lim := done + *ops/4; done < lim; g++ {
				done += round(g)
			}
			wcp("window", false, done)
		}
		// queries whose arguments are FRESH absent keys every time (failed lookups, failed deletes, bounds nobody stored):
		// nothing may be remembered per argument
		for i := 0; i < *ops/20; i++ {
			miss(i)
		}
		wcp("q-miss", true, 0)
		for c := 0; c < 2; c++ {
			for i := 0; i < *ops/4; i++ {
				miss(*ops + c**ops + i)
			}
			wcp("q-miss", false, (c+1)**ops/4)
		}
		runtime.KeepAlive(keep)
	}
	switch d.Name() {
	case "uint64":
		wt := art.NewUnsignedBinaryTree[uint64, int]()
		wt.Insert(1<<60, 0) // one permanent key: the groups hang below inner nodes, not the root
		window(func(g, j int) { wt.Insert(uint64(g)<<16|uint64(j*5), j) }, func(g, j int) { wt.Delete(uint64(g)<<16 | uint64(j*5)) },
			func(i int) {
				k := uint64(i)<<20 | 0xabcde
				wt.Search(k)
				wt.Delete(k)
				for range wt.Range(k, k+3) {
				}
			}, wt)
	case "uint32":
		wt := art.NewUnsignedBinaryTree[uint32, int]()
		wt.Insert(1<<31, 0)
		window(func(g, j int) { wt.Insert(uint32(g%(1<<22))<<8|uint32(j*5), j) }, func(g, j int) { wt.Delete(uint32(g%(1<<22))<<8 | uint32(j*5)) },
			func(i int) {
				k := uint32(i)<<4 | 0x7
				wt.Search(k)
				wt.Delete(k)
				for range wt.Range(k, k+3) {
				}
			}, wt)
	case "alpha/string":
		wt := art.NewAlphaSortedTree[string, int]()
		wt.Insert("zz", 0)
		key := func(g, j int) string { return fmt.Sprintf("w/%07x/session-id/%c%c", g, 'A'+j/2, 'a'+j%2) }
		window(func(g, j int) { wt.Insert(key(g, j), j) }, func(g, j int) { wt.Delete(key(g, j)) },
			func(i int) {
				k := fmt.Sprintf("miss/%09x", i)
				wt.Search(k)
				wt.Delete(k)
				for range wt.Range(k, k+"z") {
				}
				for range wt.Prefix(k) {
				}
			}, wt)
	case "alpha/bytes":
		wt := art.NewAlphaSortedTree[[]byte, int]()
		wt.Insert([]byte("zz"), 0)
		key := func(g, j int) []byte { return []byte(fmt.Sprintf("%06x%c", g, '0'+j)) }
		window(func(g, j int) { wt.Insert(key(g, j), j) }, func(g, j int) { wt.Delete(key(g, j)) },
			func(i int) {
				k := []byte(fmt.Sprintf("m%08x", i))
				wt.Search(k)
				wt.Delete(k)
				for range wt.Range(k, append(k, 'z')) {
				}
				for range wt.Prefix(k) {
				}
			}, wt)
	case "collation/string/und":
		wt := art.NewCollationSortedTree[string, int]()
		wt.Insert("zz", 0)
		key := func(g, j int) string { return fmt.Sprintf("w%07x-%c%c", g, 'a'+j/3, 'a'+j%3) }
		window(func(g, j int) { wt.Insert(key(g, j), j) }, func(g, j int) { wt.Delete(key(g, j)) },
			func(i int) {
				k := fmt.Sprintf("miss %08x", i)
				wt.Search(k)
				wt.Delete(k)
				for range wt.Range(k, k+"z") {
				}
				for range wt.Prefix(k) {
				}
			}, wt)
	case "float64":
		wt := art.NewFloatBinaryTree[float64, int]()
		wt.Insert(-1, 0)
		window(func(g, j int) { wt.Insert(float64(g)*64+float64(j), j) }, func(g, j int) { wt.Delete(float64(g)*64 + float64(j)) },
			func(i int) {
				k := float64(i) + 0.5
				wt.Search(k)
				wt.Delete(k)
				for range wt.Range(k, k+0.25) {
				}
			}, wt)
	}
	runtime.KeepAlive(d)
	tr.Close()
	writeStats(*stats, Stats{Cmd: "mem", Kind: d.Name(), Lines: tr.Lines, Ops: 3 * *ops, Segments: 1, Digests: len(rec.Digests),
		Extra: map[string]int{"keys": len(ins), "content_bytes": content}, Samples: []string{fmt.Sprintf("%s: %d keys, %d ops per phase (queries, overwrites, churn), then emptied", d.Name(), len(ins), *ops)}})
}

func init() {
	extraCmds["gc"] = cmdGC
	extraCmds["multi"] = cmdMulti
	extraCmds["arena"] = cmdArena
	extraCmds["conc"] = cmdConc
	extraCmds["mem"] = cmdMem
}
