package main

import "runtime"

func envGC(tr *Trace) {
	runtime.GC()
	tr.start("GC")
	tr.emit()
}
