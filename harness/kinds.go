package main

import (
	"bytes"
	"encoding/binary"
	"fmt"
	"math"
	"math/bits"
	"strings"

	art "github.com/Clement-Jean/go-art"
	"golang.org/x/text/collate"
	"golang.org/x/text/language"
)

// RawKey is an abstract universe entry before it is mapped to a key type.
type RawKey struct {
	B     []byte
	Probe bool
}

func intVal(i int) int { return i }
func intID(v int) int  { return v }
func cloneB(b []byte) []byte {
	c := make([]byte, len(b))
	copy(c, b)
	return c
}

// ---- byte-string trees -------------------------------------------------------

func alphaT(o []byte) []byte { return append(cloneB(o), 0) }

func newAlphaString[V any](raw []RawKey, vt valType[V]) TreeDriver {
	var cs []cand[string]
	for _, r := range raw {
		cs = append(cs, cand[string]{k: string(r.B), probe: r.Probe})
	}
	cs, _ = buildUniverse(cs, strings.Compare)
	d := &Driver[string, V]{
		name: "alpha/string", family: "alpha",
		ident:   func(k string) string { return "b:" + k },
		newTree: func() art.Tree[string, V] { return art.NewAlphaSortedTree[string, V]() },
		mkVal:   vt.mk, valID: vt.id,
		hasPrefix: true, hasRange: true,
		emptyKey: func() (string, bool) { return "", true },
	}
	for _, c := range cs {
		d.keys = append(d.keys, c.k)
		d.uni = append(d.uni, UEntry{O: []byte(c.k), T: alphaT([]byte(c.k)), Probe: c.probe})
	}
	d.finish()
	return d
}

func newAlphaBytes[V any](raw []RawKey, vt valType[V]) TreeDriver {
	var cs []cand[[]byte]
	for _, r := range raw {
		cs = append(cs, cand[[]byte]{k: cloneB(r.B), probe: r.Probe})
	}
	cs, _ = buildUniverse(cs, bytes.Compare)
	d := &Driver[[]byte, V]{
		name: "alpha/bytes", family: "alpha",
		ident:   func(k []byte) string { return "b:" + string(k) },
		newTree: func() art.Tree[[]byte, V] { return art.NewAlphaSortedTree[[]byte, V]() },
		mkVal:   vt.mk, valID: vt.id,
		hasPrefix: true, hasRange: true,
		emptyKey: func() ([]byte, bool) { return []byte{}, true },
		passKey:  cloneB,
	}
	for _, c := range cs {
		d.keys = append(d.keys, c.k)
		d.uni = append(d.uni, UEntry{O: cloneB(c.k), T: alphaT(c.k), Probe: c.probe})
	}
	d.finish()
	return d
}

// ---- numeric trees ------------------------------------------------------------

// pattern: the first w bytes of b (right-padded with zeros), big-endian.
func pattern(b []byte, w int) uint64 {
	var p uint64
	for i := 0; i < w; i++ {
		p <<= 8
		if i < len(b) {
			p |= uint64(b[i])
		}
	}
	return p
}

type uintsC interface {
	~uint8 | ~uint16 | ~uint32 | ~uint64 | ~uint
}
type intsC interface {
	~int8 | ~int16 | ~int32 | ~int64 | ~int
}

func cmpOrdered[K uintsC | intsC](a, b K) int {
	if a < b {
		return -1
	}
	if a > b {
		return 1
	}
	return 0
}

func patBytes(p uint64, w int) []byte {
	b := make([]byte, 8)
	binary.BigEndian.PutUint64(b, p)
	return b[8-w:]
}

func newUnsigned[K interface {
	uint8 | uint16 | uint32 | uint64 | uint
}, V any](name string, w int, raw []RawKey, vt valType[V]) TreeDriver {
	var cs []cand[K]
	for _, r := range raw {
		cs = append(cs, cand[K]{k: K(pattern(r.B, w)), probe: r.Probe})
	}
	cs, _ = buildUniverse(cs, cmpOrdered[K])
	codec := art.UnsignedBinaryKey[K]{}
	d := &Driver[K, V]{
		name: name, family: "unsigned",
		ident:   func(k K) string { return fmt.Sprintf("u:%d", uint64(k)) },
		newTree: func() art.Tree[K, V] { return art.NewUnsignedBinaryTree[K, V]() },
		mkVal:   vt.mk, valID: vt.id,
		hasRange: true, leafByT: true,
	}
	for _, c := range cs {
		_, t := codec.Transform(c.k)
		d.keys = append(d.keys, c.k)
		d.uni = append(d.uni, UEntry{O: patBytes(uint64(c.k), w), T: cloneB(t), Probe: c.probe})
	}
	d.finish()
	return d
}

func newSigned[K interface {
	int8 | int16 | int32 | int64 | int
}, V any](name string, w int, raw []RawKey, vt valType[V]) TreeDriver {
	var cs []cand[K]
	for _, r := range raw {
		p := pattern(r.B, w)
		// sign-extend the w-byte pattern
		shift := uint(64 - 8*w)
		cs = append(cs, cand[K]{k: K(int64(p<<shift) >> shift), probe: r.Probe})
	}
	cs, _ = buildUniverse(cs, cmpOrdered[K])
	codec := art.SignedBinaryKey[K]{}
	d := &Driver[K, V]{
		name: name, family: "signed",
		ident:   func(k K) string { return fmt.Sprintf("i:%d", int64(k)) },
		newTree: func() art.Tree[K, V] { return art.NewSignedBinaryTree[K, V]() },
		mkVal:   vt.mk, valID: vt.id,
		hasRange: true, leafByT: true,
	}
	for _, c := range cs {
		_, t := codec.Transform(c.k)
		d.keys = append(d.keys, c.k)
		d.uni = append(d.uni, UEntry{O: patBytes(uint64(int64(c.k)), w), T: cloneB(t), Probe: c.probe})
	}
	d.finish()
	return d
}

// floatCmp is the order of the statement: NaN < -Inf < negatives < -0 < +0 <
// positives < +Inf, all NaNs one key.  It never looks at an encoding.
func floatCmp(a, b float64) int {
	an, bn := a != a, b != b
	switch {
	case an && bn:
		return 0
	case an:
		return -1
	case bn:
		return 1
	case a < b:
		return -1
	case a > b:
		return 1
	}
	// equal: only the two zeros differ
	as, bs := math.Signbit(a), math.Signbit(b)
	switch {
	case as && !bs:
		return -1
	case !as && bs:
		return 1
	}
	return 0
}

// All NaNs are one key: every time the NaN key is handed to a tree it carries another payload / sign.
func nanPayload64() func(float64) float64 {
	i := 0
	pats := []uint64{0x7ff8000000000001, 0xfff8000000000000, 0x7ff0000000000001, 0xffffffffffffffff, 0x7ff8000000000000, 0xfff0000000000002}
	return func(f float64) float64 {
		if f != f {
			i++
			return math.Float64frombits(pats[i%len(pats)])
		}
		return f
	}
}

func nanPayload32() func(float32) float32 {
	i := 0
	pats := []uint32{0x7fc00000, 0xffc00000, 0x7f800001, 0xffffffff, 0x7fc00001, 0xff800002}
	return func(f float32) float32 {
		if f != f {
			i++
			return math.Float32frombits(pats[i%len(pats)])
		}
		return f
	}
}

func floatIdent64(f float64) string {
	if f != f {
		return "f:NaN"
	}
	return fmt.Sprintf("f:%016x", math.Float64bits(f))
}

func floatRangeOK(a, b float64) bool {
	if a != a || b != b {
		return false
	}
	if a == 0 && b == 0 && math.Signbit(a) != math.Signbit(b) {
		return false
	}
	return true
}

func newFloat64[V any](raw []RawKey, vt valType[V]) TreeDriver {
	var cs []cand[float64]
	for _, r := range raw {
		cs = append(cs, cand[float64]{k: math.Float64frombits(pattern(r.B, 8)), probe: r.Probe})
	}
	cs, _ = buildUniverse(cs, floatCmp)
	codec := art.FloatBinaryKey[float64]{}
	d := &Driver[float64, V]{
		name: "float64", family: "float",
		ident:   floatIdent64,
		newTree: func() art.Tree[float64, V] { return art.NewFloatBinaryTree[float64, V]() },
		mkVal:   vt.mk, valID: vt.id,
		hasRange: true, leafByT: true,
		rangeOK: floatRangeOK,
		passKey: nanPayload64(),
	}
	for _, c := range cs {
		_, t := codec.Transform(c.k)
		d.keys = append(d.keys, c.k)
		d.uni = append(d.uni, UEntry{O: patBytes(math.Float64bits(c.k), 8), T: cloneB(t), Probe: c.probe})
	}
	d.finish()
	return d
}

func newFloat32[V any](raw []RawKey, vt valType[V]) TreeDriver {
	var cs []cand[float32]
	for _, r := range raw {
		cs = append(cs, cand[float32]{k: math.Float32frombits(uint32(pattern(r.B, 4))), probe: r.Probe})
	}
	cs, _ = buildUniverse(cs, func(a, b float32) int { return floatCmp(float64(a), float64(b)) })
	codec := art.FloatBinaryKey[float32]{}
	d := &Driver[float32, V]{
		name: "float32", family: "float",
		ident: func(f float32) string {
			if f != f {
				return "f:NaN"
			}
			return fmt.Sprintf("f:%08x", math.Float32bits(f))
		},
		newTree: func() art.Tree[float32, V] { return art.NewFloatBinaryTree[float32, V]() },
		mkVal:   vt.mk, valID: vt.id,
		hasRange: true, leafByT: true,
		rangeOK: func(a, b float32) bool { return floatRangeOK(float64(a), float64(b)) },
		passKey: nanPayload32(),
	}
	for _, c := range cs {
		_, t := codec.Transform(c.k)
		d.keys = append(d.keys, c.k)
		d.uni = append(d.uni, UEntry{O: patBytes(uint64(math.Float32bits(c.k)), 4), T: cloneB(t), Probe: c.probe})
	}
	d.finish()
	return d
}

// ---- collation trees ----------------------------------------------------------

type collSpec struct {
	tag  string
	opts []collate.Option
	name string
}

var collators = map[string]collSpec{
	"und":     {"und", nil, "und"},
	"sv":      {"sv", nil, "sv"},
	"de":      {"de", nil, "de"},
	"es":      {"es", nil, "es"},
	"da":      {"da", nil, "da"},
	"fr":      {"fr", nil, "fr"},
	"en-num":  {"en", []collate.Option{collate.Numeric}, "en-num"},
	"und-num": {"und", []collate.Option{collate.Numeric}, "und-num"},
}

func mkCollator(cs collSpec) *collate.Collator {
	return collate.New(language.MustParse(cs.tag), cs.opts...)
}

// prefixFreeT drops entries whose transformed bytes are a proper prefix of (or
// equal to) another entry's: the "collator tells the strings apart" /
// "prefix-free codec" precondition.
func prefixFreeT[K any](cs []cand[K], tof func(K) []byte) ([]cand[K], int) {
	ts := make([][]byte, len(cs))
	for i, c := range cs {
		ts[i] = tof(c.k)
	}
	var out []cand[K]
	dropped := 0
	for i, c := range cs {
		bad := false
		for j := range cs {
			if c.probe || cs[j].probe {
				continue // only what can be stored has to be prefix-free
			}
			if i != j && bytes.HasPrefix(ts[j], ts[i]) && (len(ts[i]) < len(ts[j]) || j < i) {
				bad = true
				break
			}
		}
		if bad {
			dropped++
			continue
		}
		out = append(out, c)
	}
	return out, dropped
}

func collKeyOf(c *collate.Collator, s []byte) []byte {
	var buf collate.Buffer
	return cloneB(c.Key(&buf, s))
}

func newCollation[V any](ktype, cname string, raw []RawKey, plainPrefix bool, vt valType[V]) TreeDriver {
	spec, ok := collators[cname]
	if !ok {
		panic("unknown collator " + cname)
	}
	oracle := mkCollator(spec)
	var cs []cand[string]
	for _, r := range raw {
		cs = append(cs, cand[string]{k: string(r.B), probe: r.Probe})
	}
	cs, _ = buildUniverseT(cs, func(a, b string) int { return oracle.CompareString(a, b) }, func(a, b string) bool { return a != b })
	cs, _ = prefixFreeT(cs, func(s string) []byte { return collKeyOf(oracle, []byte(s)) })
	name := "collation/" + ktype + "/" + spec.name
	fill := func(uni *[]UEntry) {
		for _, c := range cs {
			*uni = append(*uni, UEntry{O: []byte(c.k), T: collKeyOf(oracle, []byte(c.k)), Probe: c.probe, Twin: c.twin})
		}
	}
	switch ktype {
	case "string":
		d := &Driver[string, V]{
			name: name, family: "collation",
			ident: func(k string) string { return "b:" + k },
			newTree: func() art.Tree[string, V] {
				return art.NewCollationSortedTree[string, V](art.WithCollator[string, V](mkCollator(spec)))
			},
			mkVal: vt.mk, valID: vt.id,
			hasPrefix: plainPrefix, hasRange: false,
		}
		for _, c := range cs {
			d.keys = append(d.keys, c.k)
		}
		fill(&d.uni)
		d.finish()
		return d
	case "bytes":
		d := &Driver[[]byte, V]{
			name: name, family: "collation",
			ident: func(k []byte) string { return "b:" + string(k) },
			newTree: func() art.Tree[[]byte, V] {
				return art.NewCollationSortedTree[[]byte, V](art.WithCollator[[]byte, V](mkCollator(spec)))
			},
			mkVal: vt.mk, valID: vt.id,
			hasPrefix: plainPrefix, hasRange: false,
			passKey: cloneB,
		}
		for _, c := range cs {
			d.keys = append(d.keys, []byte(c.k))
		}
		fill(&d.uni)
		d.finish()
		return d
	case "runes":
		if cname != "und" {
			panic("[]rune collation trees only exist with the default collator")
		}
		d := &Driver[[]rune, V]{
			name: name, family: "collation",
			ident:   func(k []rune) string { return "b:" + string(k) },
			newTree: func() art.Tree[[]rune, V] { return art.NewCollationSortedTree[[]rune, V]() },
			mkVal:   vt.mk, valID: vt.id,
			hasPrefix: plainPrefix, hasRange: false,
			passKey: func(k []rune) []rune { return append([]rune{}, k...) },
		}
		for _, c := range cs {
			d.keys = append(d.keys, []rune(c.k))
		}
		fill(&d.uni)
		d.finish()
		return d
	}
	panic("unknown collation key type " + ktype)
}

// ---- compound trees -----------------------------------------------------------

// Field types of a compound schema.
const (
	fU8 = iota
	fU16
	fU32
	fU64
	fI8
	fI16
	fI32
	fI64
	fF32
	fF64
	fStr // terminated string, last field only
)

var fieldNames = []string{"u8", "u16", "u32", "u64", "i8", "i16", "i32", "i64", "f32", "f64", "str"}
var fieldWidth = []int{1, 2, 4, 8, 1, 2, 4, 8, 4, 8, 0}

// Tuple is the user key type of the compound trees: numeric fields as raw bit
// patterns of their declared type, plus the optional string field.
type Tuple struct {
	N [4]uint64
	S string
}

type Schema struct {
	Fields []int
}

func (s Schema) String() string {
	var parts []string
	for _, f := range s.Fields {
		parts = append(parts, fieldNames[f])
	}
	return strings.Join(parts, "+")
}

// tupleCodec concatenates the library's own numeric encodings (and a
// 0x00-terminated string): injective, prefix-free, order preserving.
type tupleCodec struct{ s Schema }

func encField(f int, p uint64) []byte {
	var b []byte
	switch f {
	case fU8:
		_, b = art.UnsignedBinaryKey[uint8]{}.Transform(uint8(p))
	case fU16:
		_, b = art.UnsignedBinaryKey[uint16]{}.Transform(uint16(p))
	case fU32:
		_, b = art.UnsignedBinaryKey[uint32]{}.Transform(uint32(p))
	case fU64:
		_, b = art.UnsignedBinaryKey[uint64]{}.Transform(p)
	case fI8:
		_, b = art.SignedBinaryKey[int8]{}.Transform(int8(p))
	case fI16:
		_, b = art.SignedBinaryKey[int16]{}.Transform(int16(p))
	case fI32:
		_, b = art.SignedBinaryKey[int32]{}.Transform(int32(p))
	case fI64:
		_, b = art.SignedBinaryKey[int64]{}.Transform(int64(p))
	case fF32:
		_, b = art.FloatBinaryKey[float32]{}.Transform(math.Float32frombits(uint32(p)))
	case fF64:
		_, b = art.FloatBinaryKey[float64]{}.Transform(math.Float64frombits(p))
	}
	return b
}

func decField(f int, b []byte) uint64 {
	switch f {
	case fU8:
		return uint64(art.UnsignedBinaryKey[uint8]{}.Restore(b))
	case fU16:
		return uint64(art.UnsignedBinaryKey[uint16]{}.Restore(b))
	case fU32:
		return uint64(art.UnsignedBinaryKey[uint32]{}.Restore(b))
	case fU64:
		return art.UnsignedBinaryKey[uint64]{}.Restore(b)
	case fI8:
		return uint64(uint8(art.SignedBinaryKey[int8]{}.Restore(b)))
	case fI16:
		return uint64(uint16(art.SignedBinaryKey[int16]{}.Restore(b)))
	case fI32:
		return uint64(uint32(art.SignedBinaryKey[int32]{}.Restore(b)))
	case fI64:
		return uint64(art.SignedBinaryKey[int64]{}.Restore(b))
	case fF32:
		return uint64(math.Float32bits(art.FloatBinaryKey[float32]{}.Restore(b)))
	case fF64:
		return math.Float64bits(art.FloatBinaryKey[float64]{}.Restore(b))
	}
	return 0
}

func (c tupleCodec) Transform(t Tuple) ([]byte, []byte) {
	// the usual idiom: append(enc(first), enc(second)...) - the first field's encoding is the buffer the others
	// are appended to (an encoder that hands out shared storage shows here)
	var out []byte
	for i, f := range c.s.Fields {
		var e []byte
		if f == fStr {
			e = append([]byte(t.S), 0)
		} else {
			e = encField(f, t.N[i])
		}
		if i == 0 {
			out = e
		} else {
			out = append(out, e...)
		}
	}
	return out, out
}

func (c tupleCodec) Restore(b []byte) Tuple {
	var t Tuple
	off := 0
	for i, f := range c.s.Fields {
		if f == fStr {
			t.S = string(b[off : len(b)-1])
			off = len(b)
		} else {
			w := fieldWidth[f]
			t.N[i] = decField(f, b[off:off+w])
			off += w
		}
	}
	return t
}

// tupleCmp: field-wise comparison on the Go values; independent of any encoding.
func tupleCmp(s Schema) func(a, b Tuple) int {
	return func(a, b Tuple) int {
		for i, f := range s.Fields {
			var c int
			x, y := a.N[i], b.N[i]
			switch f {
			case fU8, fU16, fU32, fU64:
				c = cmpOrdered(x, y)
			case fI8:
				c = cmpOrdered(int8(x), int8(y))
			case fI16:
				c = cmpOrdered(int16(x), int16(y))
			case fI32:
				c = cmpOrdered(int32(x), int32(y))
			case fI64:
				c = cmpOrdered(int64(x), int64(y))
			case fF32:
				c = floatCmp(float64(math.Float32frombits(uint32(x))), float64(math.Float32frombits(uint32(y))))
			case fF64:
				c = floatCmp(math.Float64frombits(x), math.Float64frombits(y))
			case fStr:
				c = strings.Compare(a.S, b.S)
			}
			if c != 0 {
				return c
			}
		}
		return 0
	}
}

// canonTuple masks the patterns to the field widths and canonicalises NaNs.
func canonTuple(s Schema, t Tuple) Tuple {
	var o Tuple
	for i, f := range s.Fields {
		switch f {
		case fStr:
			o.S = strings.ReplaceAll(t.S, "\x00", "")
		case fF32:
			v := math.Float32frombits(uint32(t.N[i]))
			if v != v {
				v = float32(math.NaN())
			}
			o.N[i] = uint64(math.Float32bits(v))
		case fF64:
			v := math.Float64frombits(t.N[i])
			if v != v {
				v = math.NaN()
			}
			o.N[i] = math.Float64bits(v)
		default:
			w := fieldWidth[f]
			if w < 8 {
				o.N[i] = t.N[i] & (1<<(8*uint(w)) - 1)
			} else {
				o.N[i] = t.N[i]
			}
		}
	}
	return o
}

func tupleIdent(s Schema) func(Tuple) string {
	return func(t Tuple) string {
		t = canonTuple(s, t)
		return fmt.Sprintf("t:%x:%x:%x:%x:%q", t.N[0], t.N[1], t.N[2], t.N[3], t.S)
	}
}

// rawToTuple cuts the raw bytes into the schema's fields.
func rawToTuple(s Schema, b []byte) Tuple {
	var t Tuple
	off := 0
	for i, f := range s.Fields {
		if f == fStr {
			if off < len(b) {
				t.S = string(b[off:])
			}
			off = len(b)
		} else {
			w := fieldWidth[f]
			var sub []byte
			if off < len(b) {
				sub = b[off:min(len(b), off+w)]
			}
			t.N[i] = pattern(sub, w)
			off += w
		}
	}
	return canonTuple(s, t)
}

func newCompound[V any](s Schema, raw []RawKey, vt valType[V]) TreeDriver {
	var cs []cand[Tuple]
	for _, r := range raw {
		cs = append(cs, cand[Tuple]{k: rawToTuple(s, r.B), probe: r.Probe})
	}
	cs, _ = buildUniverse(cs, tupleCmp(s))
	codec := tupleCodec{s}
	hasFloat := false
	for _, f := range s.Fields {
		if f == fF32 || f == fF64 {
			hasFloat = true
		}
	}
	_ = hasFloat
	d := &Driver[Tuple, V]{
		name: "compound/" + s.String(), family: "compound",
		ident:   tupleIdent(s),
		newTree: func() art.Tree[Tuple, V] { return art.NewCompoundTree[Tuple, V](codec) },
		mkVal:   vt.mk, valID: vt.id,
		hasRange: true, leafByT: true,
	}
	for _, c := range cs {
		t, _ := codec.Transform(c.k)
		d.keys = append(d.keys, c.k)
		d.uni = append(d.uni, UEntry{O: cloneB(t), T: cloneB(t), Probe: c.probe})
	}
	d.finish()
	return d
}

func parseSchema(s string) Schema {
	var sc Schema
	for _, p := range strings.Split(s, "+") {
		found := false
		for i, n := range fieldNames {
			if n == p {
				sc.Fields = append(sc.Fields, i)
				found = true
			}
		}
		if !found {
			panic("unknown field type " + p)
		}
	}
	if len(sc.Fields) < 1 || len(sc.Fields) > 4 {
		panic("schema needs 1..4 fields")
	}
	return sc
}

// ---- registry -----------------------------------------------------------------

var uintBytes = bits.UintSize / 8

// kindWidth: fixed key width in bytes (0 = variable length byte strings / text).
func kindWidth(name string) int {
	switch name {
	case "uint8", "int8":
		return 1
	case "uint16", "int16":
		return 2
	case "uint32", "int32", "float32":
		return 4
	case "uint64", "int64", "float64":
		return 8
	case "uint", "int":
		return uintBytes
	}
	return 0
}

// valType describes how a value type is made from / mapped back to an integer id.
type valType[V any] struct {
	name string
	mk   func(int) V
	id   func(V) int
}

var intVT = valType[int]{"int", intVal, intID}

// NewDriver builds the driver of a named kind over a raw universe (int values).
func NewDriver(name string, raw []RawKey) TreeDriver { return NewDriverV(name, raw, intVT) }

func NewDriverV[V any](name string, raw []RawKey, vt valType[V]) TreeDriver {
	d := newDriver(name, raw, vt)
	d.setRaw(raw)
	return d
}

func newDriver[V any](name string, raw []RawKey, vt valType[V]) TreeDriver {
	switch name {
	case "alpha/string":
		return newAlphaString(raw, vt)
	case "alpha/bytes":
		return newAlphaBytes(raw, vt)
	case "uint8":
		return newUnsigned[uint8](name, 1, raw, vt)
	case "uint16":
		return newUnsigned[uint16](name, 2, raw, vt)
	case "uint32":
		return newUnsigned[uint32](name, 4, raw, vt)
	case "uint64":
		return newUnsigned[uint64](name, 8, raw, vt)
	case "uint":
		return newUnsigned[uint](name, uintBytes, raw, vt)
	case "int8":
		return newSigned[int8](name, 1, raw, vt)
	case "int16":
		return newSigned[int16](name, 2, raw, vt)
	case "int32":
		return newSigned[int32](name, 4, raw, vt)
	case "int64":
		return newSigned[int64](name, 8, raw, vt)
	case "int":
		return newSigned[int](name, uintBytes, raw, vt)
	case "float32":
		return newFloat32(raw, vt)
	case "float64":
		return newFloat64(raw, vt)
	}
	if rest, ok := strings.CutPrefix(name, "collation/"); ok {
		parts := strings.Split(rest, "/")
		if len(parts) == 2 {
			return newCollation(parts[0], parts[1], raw, true, vt)
		}
	}
	if rest, ok := strings.CutPrefix(name, "compound/"); ok {
		return newCompound(parseSchema(rest), raw, vt)
	}
	panic("unknown kind " + name)
}

var allSimpleKinds = []string{
	"alpha/string", "alpha/bytes",
	"uint8", "uint16", "uint32", "uint64", "uint",
	"int8", "int16", "int32", "int64", "int",
	"float32", "float64",
}
