// artdrive: runs histories against the real go-art trees and records what they
// did as ndjson traces for validation against the TLA+ specification.
package main

import (
	"bufio"
	"bytes"
	"encoding/json"
	"flag"
	"fmt"
	"math/rand"
	"os"
	"sort"
	"strings"
)

func fatal(f string, a ...any) {
	fmt.Fprintf(os.Stderr, "artdrive: "+f+"\n", a...)
	os.Exit(2)
}

type Stats struct {
	Cmd       string         `json:"cmd"`
	Kind      string         `json:"kind"`
	Universe  string         `json:"universe"`
	Lines     int            `json:"lines"`
	Segments  int            `json:"segments"`
	Ops       int            `json:"ops"`
	Digests   int            `json:"distinct_digests"`
	Panics    int            `json:"panics"`
	Extra     map[string]int `json:"extra,omitempty"`
	Samples   []string       `json:"samples,omitempty"`
	UniverseN int            `json:"universe_n"`
}

func writeStats(path string, s Stats) {
	b, _ := json.Marshal(s)
	if path == "" {
		fmt.Println(string(b))
		return
	}
	os.WriteFile(path, b, 0o644)
}

func parseBattery(s string) Battery {
	var b Battery
	for _, p := range strings.Split(s, ",") {
		if p == "" {
			continue
		}
		name, arg, _ := strings.Cut(p, "=")
		n := -1
		if arg != "" {
			fmt.Sscan(arg, &n)
		}
		switch name {
		case "search":
			b.Search = true
		case "iter":
			b.Iter = true
		case "minmax":
			b.MinMax = true
		case "topk":
			b.TopK = true
		case "range":
			b.Range = n
		case "prefix":
			b.Prefix = n
		case "iterof":
			// iterof=Range+Prefix: restrict iterchk to these methods
			b.IterOnly = strings.Split(arg, "+")
			if b.IterChk == 0 {
				b.IterChk = 2
			}
		case "rangec":
			if n < 0 {
				n = 6
			}
			b.RangeC = n
		case "iterchk":
			if n < 0 {
				n = 3
			}
			b.IterChk = n
		case "dump":
			b.Dump = true
		case "all":
			b = Battery{Search: true, Iter: true, MinMax: true, TopK: true, Range: 12, Prefix: 6, IterChk: 2, Dump: false}
		default:
			fatal("unknown battery item %q", p)
		}
	}
	return b
}

func hasD2(uni []UEntry) bool {
	for i := range uni {
		for j := range uni {
			if i != j && len(uni[j].O) > len(uni[i].O) && bytes.HasPrefix(uni[j].O, uni[i].O) && uni[j].O[len(uni[i].O)] == 0 {
				return true
			}
		}
	}
	return false
}

// rawFor maps a universe name to the raw keys suitable for a kind.
func rawFor(kind, uname, size string, seed int64) []RawKey {
	if strings.HasPrefix(kind, "compound/") {
		s := parseSchema(strings.TrimPrefix(kind, "compound/"))
		n := 14
		if size == "t" {
			n = 22
		}
		if uname == "tupleq" {
			n = 9
		}
		if uname == "giant" || uname == "huge" || uname == "huge2" {
			// the byte-string universes of very long keys as the string field of a tuple (numeric fields constant):
			// encoded tuples of more than 255 / 65535 bytes
			w := 0
			hasStr := false
			for _, f := range s.Fields {
				if f == fStr {
					hasStr = true
				} else {
					w += fieldWidth[f]
				}
			}
			if !hasStr {
				fatal("universe %s needs a schema with a string field", uname)
			}
			var u []RawKey
			for _, k := range Universe(uname, size, seed) {
				if bytes.IndexByte(k.B, 0) >= 0 {
					continue
				}
				b := make([]byte, w, w+len(k.B))
				for i := range b {
					b[i] = 7
				}
				u = append(u, RawKey{B: append(b, k.B...), Probe: k.Probe})
			}
			return u
		}
		if uname == "tuplerange" {
			// fields cut from 8 raw bytes; stored tuples share a 7-byte encoded path, bounds share only part of it
			mk := func(a, b uint32, probe bool) RawKey {
				k := []byte{byte(a >> 24), byte(a >> 16), byte(a >> 8), byte(a), byte(b >> 24), byte(b >> 16), byte(b >> 8), byte(b)}
				return RawKey{B: k, Probe: probe}
			}
			var u []RawKey
			for _, b := range []uint32{0x00010001, 0x00010002, 0x00010003, 0x00010004} {
				u = append(u, mk(7, b, false))
			}
			u = append(u, mk(9, 5, false), mk(7, 0x00020000, false))
			u = append(u, mk(7, 0, true), mk(7, 0xffffffff, true), mk(6, 1, true), mk(8, 0, true), mk(7, 0x00010000, true), mk(7, 0x0001ffff, true))
			return u
		}
		if uname == "tuplelong" {
			// tuples whose encodings share 16 bytes (far beyond the inline limit); probes differ from stored tuples only
			// inside the non-inlined part of that path (byte 12) and have the same tail
			w := 0
			for _, f := range s.Fields {
				w += fieldWidth[f]
			}
			mk := func(mid, last byte, probe bool) RawKey {
				k := make([]byte, w)
				for i := range k {
					k[i] = byte(0x30 + i)
				}
				if w > 12 {
					k[12] = mid
				}
				k[w-1] = last
				return RawKey{B: k, Probe: probe}
			}
			var u []RawKey
			for _, l := range []byte{1, 2, 3, 4} {
				u = append(u, mk(0x3c, l, false))
			}
			for _, l := range []byte{1, 2} {
				u = append(u, mk(0x5a, l, true))
			}
			u = append(u, mk(0x3c, 9, true))
			// stored tuples that leave the shared path EARLY (inside the inline bytes, at its edge, just beyond it): the split
			// pushes a node down whose remaining path must be re-derived from a leaf, not shifted within the inline array
			for _, pos := range []int{2, 9, 11} {
				if pos < w-1 {
					k := mk(0x3c, 1, false)
					k.B[pos] = 0x77
					u = append(u, k)
				}
			}
			return u
		}
		if uname == "tuplefan" {
			// the first byte of the encoding takes all 256 values (0xFF included), the rest is fixed: one 256-way root
			var u []RawKey
			w := 0
			for _, f := range s.Fields {
				if f == fStr {
					w += 2
				} else {
					w += fieldWidth[f]
				}
			}
			for b := 0; b < 256; b++ {
				k := make([]byte, w)
				k[0] = byte(b)
				for i := 1; i < w; i++ {
					k[i] = byte(0x40 + i)
				}
				u = append(u, RawKey{B: k})
			}
			return u
		}
		return tupleUniverse(s, seed, n)
	}
	if w := kindWidth(kind); w > 0 {
		switch uname {
		case "fixed":
			return Universe("fixed", size, seed)
		case "fixedq":
			u := Universe("fixed", size, seed)
			r := rand.New(rand.NewSource(seed))
			r.Shuffle(len(u), func(i, j int) { u[i], u[j] = u[j], u[i] })
			return u[:min(len(u), 11)]
		case "fan1", "fan2", "fanb", "fan18", "fan64", "fan16":
			return Universe(uname, size, seed)
		case "fanp64":
			// 64 values of the last byte below a fixed path: short fill/drain cycles of a 256-class node WITH a compressed path
			var u []RawKey
			fixed := []byte{0xab, 0xcd, 0xef, 0x01, 0x23, 0x45, 0x67}
			for i := 0; i < 64; i++ {
				b := byte(i*4 + i%4)
				if i == 63 {
					b = 0xff
				}
				u = append(u, RawKey{B: append(append([]byte{}, fixed[:w-1]...), b)})
			}
			return u
		case "fanp":
			// all 256 values of the last byte below a fixed w-1 byte path: a 256-class node WITH a compressed path
			var u []RawKey
			fixed := []byte{0xab, 0xcd, 0xef, 0x01, 0x23, 0x45, 0x67}
			for b := 0; b < 256; b++ {
				k := append(append([]byte{}, fixed[:w-1]...), byte(b))
				u = append(u, RawKey{B: k})
			}
			return u
		case "random":
			n := 16
			if size == "t" {
				n = 24
			}
			return fixedUniverse(seed, w, n)
		case "bounds":
			// the boundary values of every interpretation of a w-byte pattern: 0, 1, -1, the signed and unsigned extremes and
			// their neighbours, the float specials (zeros, smallest subnormals, infinities and their neighbours, a NaN)
			seen := map[uint64]bool{}
			var u []RawKey
			add := func(p uint64, probe bool) {
				p &= mask(w)
				if !seen[p] {
					seen[p] = true
					u = append(u, RawKey{B: be(p, w), Probe: probe})
				}
			}
			top := uint64(1) << (8*uint(w) - 1)
			for _, p := range []uint64{0, 1, top - 1, top, top + 1, ^uint64(0), ^uint64(0) - 1, 0xff, 0x100} {
				add(p, false)
			}
			if w == 4 {
				for _, p := range []uint64{0x7f800000, 0xff800000, 0x7f7fffff, 0xff7fffff, 0x00800000, 0x80000001, 0x7fc00000, 0x3f800000, 0xbf800000} {
					add(p, false)
				}
			}
			if w == 8 {
				for _, p := range []uint64{0x7ff0000000000000, 0xfff0000000000000, 0x7fefffffffffffff, 0xffefffffffffffff, 0x0010000000000000,
					0x8000000000000001, 0x7ff8000000000000, 0x3ff0000000000000, 0xbff0000000000000} {
					add(p, false)
				}
			}
			for _, p := range []uint64{2, top - 2, top + 2, ^uint64(0) - 2} {
				add(p, true)
			}
			return u
		}
		return Universe(uname, size, seed)
	}
	return Universe(uname, size, seed)
}

func buildDriver(kind, uname, size string, seed int64) TreeDriver {
	d := NewDriver(kind, rawFor(kind, uname, size, seed))
	if d.Family() == "alpha" && uname != "d2" && hasD2(d.Universe()) {
		fatal("universe %s for %s contains a key pair k, k||0x00||s (known finding D2): refused", uname, kind)
	}
	return d
}

type opT struct {
	Op string
	K  int
}

func parseOps(raw []json.RawMessage) []opT {
	var out []opT
	for _, r := range raw {
		var pair []json.RawMessage
		if err := json.Unmarshal(r, &pair); err != nil || len(pair) != 2 {
			fatal("bad op %s", string(r))
		}
		var o opT
		json.Unmarshal(pair[0], &o.Op)
		json.Unmarshal(pair[1], &o.K)
		out = append(out, o)
	}
	return out
}

func (r *Rec) apply(o opT) {
	switch o.Op {
	case "I":
		r.Insert(o.K)
	case "D":
		r.Delete(o.K)
	case "S":
		r.Search(o.K)
	default:
		fatal("unknown op %q", o.Op)
	}
}

func cmdUniverse(args []string) {
	fs := flag.NewFlagSet("universe", flag.ExitOnError)
	kind := fs.String("kind", "alpha/string", "")
	uname := fs.String("u", "split", "")
	size := fs.String("size", "q", "")
	seed := fs.Int64("seed", 1, "")
	fs.Parse(args)
	d := buildDriver(*kind, *uname, *size, *seed)
	type ent struct {
		O     []int `json:"o"`
		T     []int `json:"t"`
		Probe bool  `json:"probe"`
	}
	toInts := func(b []byte) []int {
		o := make([]int, len(b))
		for i, x := range b {
			o[i] = int(x)
		}
		return o
	}
	var out struct {
		Kind      string `json:"kind"`
		Family    string `json:"family"`
		HasPrefix bool   `json:"hasPrefix"`
		HasRange  bool   `json:"hasRange"`
		Keys      []ent  `json:"keys"`
		// RangeBad lists the bound pairs outside the Range domain (float carve-outs)
		RangeBad [][2]int `json:"rangeBad"`
	}
	out.Kind, out.Family, out.HasPrefix, out.HasRange = d.Name(), d.Family(), d.HasPrefix(), d.HasRange()
	for _, e := range d.Universe() {
		out.Keys = append(out.Keys, ent{toInts(e.O), toInts(e.T), e.Probe})
	}
	n := len(d.Universe())
	out.RangeBad = [][2]int{}
	for a := 1; a <= n; a++ {
		for b := 1; b <= n; b++ {
			if !d.RangeOK(a, b) {
				out.RangeBad = append(out.RangeBad, [2]int{a, b})
			}
		}
	}
	b, _ := json.Marshal(out)
	fmt.Println(string(b))
}

// cmdReplay: direction A. Each input line is one model transition
// {"pre":[[op,k]...],"op":[op,k]} (or a whole behaviour {"hist":[...]}); it is
// replayed on a fresh real tree and recorded. For an edge only the last step
// carries a dump and is followed by the battery; for a behaviour every step is.
func cmdReplay(args []string) {
	fs := flag.NewFlagSet("replay", flag.ExitOnError)
	kind := fs.String("kind", "alpha/string", "")
	uname := fs.String("u", "split", "")
	size := fs.String("size", "q", "")
	seed := fs.Int64("seed", 1, "")
	in := fs.String("in", "", "edges / histories (ndjson)")
	out := fs.String("out", "trace.ndjson", "")
	bat := fs.String("battery", "all", "")
	every := fs.Bool("every", false, "battery after every step of a behaviour (default: only after the last)")
	histBat := fs.Int("batevery", 0, "battery after every Nth step of a behaviour (and after the last)")
	preBat := fs.Bool("prebattery", false, "also run the battery BEFORE the last step of a transition test (reads interleaved anywhere)")
	stats := fs.String("stats", "", "")
	maxLines := fs.Int("maxlines", 0, "start a new trace file (out.N) after this many lines")
	fs.Parse(args)

	d := buildDriver(*kind, *uname, *size, *seed)
	bt := parseBattery(*bat)
	f, err := os.Open(*in)
	if err != nil {
		fatal("%v", err)
	}
	defer f.Close()
	sc := bufio.NewScanner(f)
	sc.Buffer(make([]byte, 1<<20), 1<<26)

	part := 0
	outName := func() string {
		if *maxLines == 0 {
			return *out
		}
		return fmt.Sprintf("%s.%d", *out, part)
	}
	tr := NewTrace(outName())
	rec := NewRec(d, 1, tr, *seed)
	st := Stats{Cmd: "replay", Kind: d.Name(), Universe: *uname, UniverseN: len(d.Universe())}
	digests := map[string]struct{}{}
	totalLines := 0
	first := true
	for sc.Scan() {
		line := sc.Bytes()
		if len(line) == 0 {
			continue
		}
		var e struct {
			Pre  []json.RawMessage `json:"pre"`
			Op   json.RawMessage   `json:"op"`
			Hist []json.RawMessage `json:"hist"`
		}
		if err := json.Unmarshal(line, &e); err != nil {
			fatal("bad input line: %v", err)
		}
		if *maxLines > 0 && tr.Lines >= *maxLines {
			totalLines += tr.Lines
			tr.Close()
			part++
			tr = NewTrace(outName())
			rec.Tr = tr
			rec.New()
			first = true
		}
		if !first {
			rec.Clear()
		}
		first = false
		st.Segments++
		if e.Hist != nil {
			ops := parseOps(e.Hist)
			for i, o := range ops {
				rec.DumpAll = true
				rec.apply(o)
				if *every || i == len(ops)-1 || (*histBat > 0 && (i+1)%*histBat == 0) {
					rec.RunBattery(bt)
				}
			}
		} else {
			rec.Pre(parseOps(e.Pre))
			if *preBat {
				rec.RunBattery(bt)
			}
			rec.DumpAll = true
			rec.apply(parseOps([]json.RawMessage{e.Op})[0])
			rec.RunBattery(bt)
		}
		if len(st.Samples) < 3 {
			st.Samples = append(st.Samples, string(line))
		}
	}
	for k := range rec.Digests {
		digests[k] = struct{}{}
	}
	totalLines += tr.Lines
	tr.Close()
	st.Lines, st.Ops, st.Digests, st.Panics = totalLines, rec.Ops, len(digests), rec.Panics
	st.Extra = map[string]int{"parts": part + 1}
	writeStats(*stats, st)
}

// cmdRandom: direction B, randomized histories with phases that push the tree
// through fill and drain so that grow and shrink thresholds are crossed.
func cmdRandom(args []string) {
	fs := flag.NewFlagSet("random", flag.ExitOnError)
	kind := fs.String("kind", "alpha/string", "")
	uname := fs.String("u", "split", "")
	size := fs.String("size", "q", "")
	seed := fs.Int64("seed", 1, "")
	out := fs.String("out", "trace.ndjson", "")
	bat := fs.String("battery", "all", "")
	n := fs.Int("n", 10, "histories")
	length := fs.Int("len", 60, "mutating operations per history")
	batEvery := fs.Int("batevery", 1, "run the battery after every Nth mutating operation")
	dumpEvery := fs.Int("dumpevery", 1, "attach a dump to every Nth mutating operation")
	stats := fs.String("stats", "", "")
	fs.Parse(args)

	d := buildDriver(*kind, *uname, *size, *seed)
	bt := parseBattery(*bat)
	if *dumpEvery >= 100000 {
		bt.Dump = false // keys of 64 KiB: no structural dumps in the trace, by any route
	}
	tr := NewTrace(*out)
	rec := NewRec(d, 1, tr, *seed)
	r := rand.New(rand.NewSource(*seed*7919 + 17))
	uni := d.Universe()
	var insertable []int
	for i, e := range uni {
		if !e.Probe {
			insertable = append(insertable, i+1)
		}
	}
	st := Stats{Cmd: "random", Kind: d.Name(), Universe: *uname, UniverseN: len(uni)}
	for h := 0; h < *n; h++ {
		if h > 0 {
			rec.Clear()
		}
		st.Segments++
		var sample []string
		// phases: fill-biased, churn, drain-biased
		for i := 0; i < *length && !rec.Dead; i++ {
			phase := (i * 4 / *length) % 4
			pIns := []int{80, 50, 20, 55}[phase]
			rec.DumpAll = *dumpEvery < 100000 && i%*dumpEvery == 0 // 100000: no dumps at all (keys of 64 KiB)
			x := r.Intn(100)
			switch {
			case x < pIns:
				k := insertable[r.Intn(len(insertable))]
				rec.Insert(k)
				sample = append(sample, fmt.Sprintf("I%d", k))
			default:
				k := 1 + r.Intn(len(uni)) // present, absent or probe-only keys
				if r.Intn(3) > 0 {
					k = insertable[r.Intn(len(insertable))]
				}
				rec.Delete(k)
				sample = append(sample, fmt.Sprintf("D%d", k))
			}
			if (i+1)%*batEvery == 0 {
				rec.RunBattery(bt)
			}
		}
		// every probe-only key is absent by construction: deleting it must fail and change nothing
		for i, e := range uni {
			if e.Probe && !rec.Dead {
				rec.Delete(i + 1)
			}
		}
		// drain completely: the emptied tree must behave like a new one
		if h%2 == 0 {
			perm := r.Perm(len(insertable))
			for _, j := range perm {
				rec.Delete(insertable[j])
			}
			rec.RunBattery(bt)
			for j := 0; j < 4 && j < len(insertable); j++ {
				rec.Insert(insertable[r.Intn(len(insertable))])
			}
			rec.RunBattery(bt)
		}
		if len(st.Samples) < 2 {
			st.Samples = append(st.Samples, strings.Join(sample[:min(len(sample), 40)], " "))
		}
	}
	tr.Close()
	st.Lines, st.Ops, st.Digests, st.Panics = tr.Lines, rec.Ops, len(rec.Digests), rec.Panics
	writeStats(*stats, st)
}

func cmdKinds(args []string) {
	ks := append([]string{}, allSimpleKinds...)
	sort.Strings(ks)
	for _, k := range ks {
		fmt.Println(k)
	}
}

func main() {
	if len(os.Args) < 2 {
		fatal("usage: artdrive <universe|replay|random|...> [flags]")
	}
	cmd, args := os.Args[1], os.Args[2:]
	switch cmd {
	case "universe":
		cmdUniverse(args)
	case "replay":
		cmdReplay(args)
	case "random":
		cmdRandom(args)
	case "kinds":
		cmdKinds(args)
	default:
		if f, ok := extraCmds[cmd]; ok {
			f(args)
			return
		}
		fatal("unknown command %q", cmd)
	}
}

var extraCmds = map[string]func([]string){}
