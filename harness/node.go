package main

import (
	"bufio"
	"encoding/json"
	"flag"
	"math/rand"
	"os"
	"strconv"

	art "github.com/Clement-Jean/go-art"
)

// Node-level driver (C10): a bare node handle through the library's own
// addChild/deleteChild/findChild/iterators, and sweeps of the primitives.

type nodeRec struct {
	tr    *Trace
	h     *art.VerifHandle
	dead  bool
	steps int
	kinds map[string]int
}

func (r *nodeRec) reset() {
	r.h = art.NewVerifHandle()
	r.dead = false
	r.tr.start("nreset")
	r.tr.emit()
}

func (r *nodeRec) observe(op string, b int, pan string) {
	tr := r.tr
	tr.start(op)
	tr.fInt("b", b)
	tr.fStr("pan", pan)
	if pan != "" {
		r.dead = true
		tr.fStr("kind", "?")
		tr.emit()
		return
	}
	kind := r.h.Kind()
	r.kinds[kind]++
	tr.fStr("kind", kind)
	if kind == "leaf" {
		tr.emit()
		r.dead = true // collapsed: the handle is finished
		return
	}
	var find [256]int
	var eb, bb []byte
	var ei, bi []int
	var mn, mx, n, real int
	var lanes []byte
	pan = guard(func() {
		raw := r.h.Raw()
		n, real = raw.N, raw.Real
		lanes = raw.Lanes
		for x := 0; x < 256; x++ {
			find[x] = r.h.Find(byte(x))
		}
		eb, ei = r.h.Enumerate()
		bb, bi = r.h.EnumerateBackward()
		mn, mx = r.h.MinMax()
	})
	if pan != "" {
		tr.buf = tr.buf[:0]
		tr.start(op)
		tr.fInt("b", b)
		tr.fStr("pan", "observe: "+pan)
		tr.fStr("kind", kind)
		tr.emit()
		r.dead = true
		return
	}
	tr.fInt("n", n)
	tr.fInt("real", real)
	tr.fBytes("raw", lanes) // n4/n16: every lane as stored (incl. unoccupied ones); n48: slot numbers in byte order
	tr.fInts("find", find[:])
	tr.fBytes("eb", eb)
	tr.fInts("ei", ei)
	tr.fBytes("bb", bb)
	tr.fInts("bi", bi)
	tr.fInt("min", mn)
	tr.fInt("max", mx)
	tr.emit()
	r.steps++
}

func (r *nodeRec) add(b int) {
	if r.dead {
		return
	}
	pan := guard(func() { r.h.Add(byte(b), b+1) })
	r.observe("A", b, pan)
}

func (r *nodeRec) remove(b int) {
	if r.dead {
		return
	}
	pan := guard(func() { r.h.Remove(byte(b)) })
	r.observe("R", b, pan)
}

func (r *nodeRec) pre(ops []opT) bool {
	if len(ops) == 0 {
		return true
	}
	tr := r.tr
	var pan string
	done := 0
	for _, o := range ops {
		pan = guard(func() {
			if o.Op == "A" {
				r.h.Add(byte(o.K), o.K+1)
			} else {
				r.h.Remove(byte(o.K))
			}
		})
		if pan != "" || r.h.Kind() == "leaf" {
			break
		}
		done++
	}
	tr.start("NPre")
	tr.buf = append(tr.buf, `,"ops":[`...)
	for i, o := range ops[:done] {
		if i > 0 {
			tr.buf = append(tr.buf, ',')
		}
		tr.buf = append(tr.buf, '[', '"')
		tr.buf = append(tr.buf, o.Op...)
		tr.buf = append(tr.buf, '"', ',')
		tr.buf = strconv.AppendInt(tr.buf, int64(o.K), 10)
		tr.buf = append(tr.buf, ']')
	}
	tr.buf = append(tr.buf, ']')
	tr.emit()
	if done < len(ops) {
		// the prefix itself failed: log the failing step as a step of its own
		o := ops[done]
		r.observe(o.Op, o.K, pan)
		return false
	}
	return true
}

func cmdNode(args []string) {
	fs := flag.NewFlagSet("node", flag.ExitOnError)
	in := fs.String("in", "", "edges from the ArtNode model (optional)")
	out := fs.String("out", "node.ndjson", "")
	seed := fs.Int64("seed", 1, "")
	walks := fs.Int("walks", 4, "random ramps through all size classes")
	stats := fs.String("stats", "", "")
	fs.Parse(args)
	tr := NewTrace(*out)
	r := &nodeRec{tr: tr, kinds: map[string]int{}}
	st := Stats{Cmd: "node"}
	if *in != "" {
		f, err := os.Open(*in)
		if err != nil {
			fatal("%v", err)
		}
		sc := bufio.NewScanner(f)
		sc.Buffer(make([]byte, 1<<20), 1<<26)
		for sc.Scan() {
			var e struct {
				Pre []json.RawMessage `json:"pre"`
				Op  json.RawMessage   `json:"op"`
			}
			if json.Unmarshal(sc.Bytes(), &e) != nil {
				continue
			}
			r.reset()
			st.Segments++
			if r.pre(parseOps(e.Pre)) {
				o := parseOps([]json.RawMessage{e.Op})[0]
				if o.Op == "A" {
					r.add(o.K)
				} else {
					r.remove(o.K)
				}
			}
			if len(st.Samples) < 3 {
				st.Samples = append(st.Samples, sc.Text())
			}
		}
		f.Close()
	}
	// random ramps: fill to 256 children in random order with some churn, then drain
	rnd := rand.New(rand.NewSource(*seed))
	for w := 0; w < *walks; w++ {
		r.reset()
		st.Segments++
		present := map[int]bool{}
		target := []int{256, 16, 60, 256, 16, 20, 50, 15}[w%8] // 16: a completely full 16-slot node that never grows further
		up := true
		for i := 0; i < 1400 && !r.dead; i++ {
			if up && len(present) >= target {
				up = false
			}
			if !up && len(present) <= 2 {
				break
			}
			doAdd := up
			if rnd.Intn(6) == 0 {
				doAdd = !doAdd
			}
			if doAdd && len(present) < 256 {
				b := rnd.Intn(256)
				for present[b] {
					b = (b + 1 + rnd.Intn(7)) % 256
				}
				r.add(b)
				present[b] = true
			} else if len(present) > 2 {
				// remove a random present byte
				k := rnd.Intn(len(present))
				for b := range present {
					if k == 0 {
						r.remove(b)
						delete(present, b)
						break
					}
					k--
				}
			}
		}
	}
	tr.Close()
	st.Lines, st.Ops = tr.Lines, r.steps
	st.Extra = r.kinds
	writeStats(*stats, st)
}

// cmdPrims: sweeps of the in-node primitives over crafted lanes.
func cmdPrims(args []string) {
	fs := flag.NewFlagSet("prims", flag.ExitOnError)
	out := fs.String("out", "prims.ndjson", "")
	seed := fs.Int64("seed", 1, "")
	size := fs.String("size", "q", "")
	stats := fs.String("stats", "", "")
	parts := fs.Int("parts", 1, "split the output over this many files (out.N)")
	fs.Parse(args)
	thorough := *size == "t"
	trs := make([]*Trace, *parts)
	for i := range trs {
		name := *out
		if *parts > 1 {
			name = *out + "." + strconv.Itoa(i)
		}
		trs[i] = NewTrace(name)
	}
	cnt := 0
	next := func() *Trace { cnt++; return trs[cnt%len(trs)] }
	rnd := rand.New(rand.NewSource(*seed))

	p4 := func(w [4]byte, n int) {
		tr := next()
		keys := uint32(w[0]) | uint32(w[1])<<8 | uint32(w[2])<<16 | uint32(w[3])<<24
		res := art.VerifProbe4(keys, uint8(n))
		var find, search, ipos [256]int
		for b := 0; b < 256; b++ {
			find[b] = int(res[b])
			search[b] = art.VerifSearchNode4(keys, byte(b))
			ipos[b] = art.VerifInsertPosNode4(keys, byte(b))
		}
		tr.start("P4")
		tr.fBytes("w", w[:])
		tr.fInt("n", n)
		tr.fInts("find", find[:])
		tr.fInts("search", search[:])
		tr.fInts("ipos", ipos[:])
		tr.emit()
	}
	p16 := func(w [16]byte, n int) {
		tr := next()
		res := art.VerifProbe16(w, uint8(n))
		var find, search, ipos [256]int
		for b := 0; b < 256; b++ {
			find[b] = int(res[b])
			search[b] = art.VerifSearchNode16(&w, uint8(n), byte(b))
			ipos[b] = art.VerifInsertPosNode16(&w, uint8(n), byte(b))
		}
		tr.start("P16")
		tr.fBytes("w", w[:])
		tr.fInt("n", n)
		tr.fInts("find", find[:])
		tr.fInts("search", search[:])
		tr.fInts("ipos", ipos[:])
		tr.emit()
	}

	alpha4 := []byte{0x00, 0x01, 0x7f, 0x80, 0xfe, 0xff}
	if thorough {
		alpha4 = []byte{0x00, 0x01, 0x02, 0x7e, 0x7f, 0x80, 0x81, 0xfe, 0xff}
	}
	for _, a := range alpha4 {
		for _, b := range alpha4 {
			for _, c := range alpha4 {
				for _, d := range alpha4 {
					for n := 0; n <= 4; n++ {
						p4([4]byte{a, b, c, d}, n)
					}
				}
			}
		}
	}
	for i := 0; i < 400; i++ { // random words
		p4([4]byte{byte(rnd.Intn(256)), byte(rnd.Intn(256)), byte(rnd.Intn(256)), byte(rnd.Intn(256))}, rnd.Intn(5))
	}
	// 16 lanes: every fill count x every lane position x lane values; the other occupied lanes
	// sorted and distinct, unoccupied lanes arbitrary
	vals := []int{0x00, 0x01, 0x7e, 0x7f, 0x80, 0x81, 0xfe, 0xff}
	if thorough {
		vals = nil
		for v := 0; v < 256; v++ {
			vals = append(vals, v)
		}
	}
	for n := 0; n <= 16; n++ {
		for pos := 0; pos < 16; pos++ {
			for _, v := range vals {
				var w [16]byte
				// occupied lanes: ascending bytes with v at pos when pos < n
				if pos < n {
					lo := v - pos
					hi := v + (n - 1 - pos)
					if lo < 0 || hi > 255 {
						continue
					}
					// spread: below v pick pos distinct smaller values, above pick n-1-pos larger ones
					below := rnd.Perm(v)[:pos]
					above := rnd.Perm(255 - v)[:n-1-pos]
					var occ []int
					occ = append(occ, below...)
					for _, a := range above {
						occ = append(occ, v+1+a)
					}
					occ = append(occ, v)
					sortInts(occ)
					for i, x := range occ {
						w[i] = byte(x)
					}
					for i := n; i < 16; i++ {
						w[i] = byte(rnd.Intn(256)) // whatever is left in unoccupied lanes
						if rnd.Intn(3) == 0 {
							w[i] = byte(v)
						}
					}
				} else {
					occ := rnd.Perm(256)[:n]
					sortInts(occ)
					for i, x := range occ {
						w[i] = byte(x)
					}
					for i := n; i < 16; i++ {
						w[i] = byte(rnd.Intn(256))
					}
					w[pos] = byte(v) // an unoccupied lane holding the probe-relevant value
				}
				p16(w, n)
			}
		}
	}
	for i := 0; i < 600; i++ { // arbitrary lanes, arbitrary fill
		var w [16]byte
		for j := range w {
			w[j] = byte(rnd.Intn(256))
			if rnd.Intn(4) == 0 {
				w[j] = []byte{0, 0x7f, 0x80, 0xff}[rnd.Intn(4)]
			}
		}
		p16(w, rnd.Intn(17))
	}
	total := 0
	for _, t := range trs {
		total += t.Lines
		t.Close()
	}
	writeStats(*stats, Stats{Cmd: "prims", Lines: total, Ops: total * 256 * 3})
}

func sortInts(a []int) {
	for i := 1; i < len(a); i++ {
		for j := i; j > 0 && a[j] < a[j-1]; j-- {
			a[j], a[j-1] = a[j-1], a[j]
		}
	}
}

func init() {
	extraCmds["node"] = cmdNode
	extraCmds["prims"] = cmdPrims
}

// cmdNodeRerun re-executes the steps (or the primitive probes) logged in a node trace segment.
func cmdNodeRerun(args []string) {
	fs := flag.NewFlagSet("noderun", flag.ExitOnError)
	in := fs.String("in", "", "")
	out := fs.String("out", "noderun.ndjson", "")
	fs.Parse(args)
	f, err := os.Open(*in)
	if err != nil {
		fatal("%v", err)
	}
	defer f.Close()
	sc := bufio.NewScanner(f)
	sc.Buffer(make([]byte, 1<<20), 1<<26)
	tr := NewTrace(*out)
	r := &nodeRec{tr: tr, kinds: map[string]int{}}
	r.reset()
	for sc.Scan() {
		var e struct {
			Op  string            `json:"op"`
			B   int               `json:"b"`
			Ops []json.RawMessage `json:"ops"`
			W   []int             `json:"w"`
			N   int               `json:"n"`
		}
		if json.Unmarshal(sc.Bytes(), &e) != nil {
			continue
		}
		switch e.Op {
		case "nreset":
			r.reset()
		case "NPre":
			r.pre(parseOps(e.Ops))
		case "A":
			r.add(e.B)
		case "R":
			r.remove(e.B)
		case "P4", "P16":
			tmp := *out + ".prim"
			one := NewTrace(tmp)
			primLine(one, e.Op, e.W, e.N)
			one.Close()
			b, _ := os.ReadFile(tmp)
			os.Remove(tmp)
			tr.w.Write(b)
			tr.Lines++
		}
	}
	tr.Close()
}

func primLine(tr *Trace, op string, wv []int, n int) {
	var find, search, ipos [256]int
	var wb []byte
	if op == "P4" {
		var w [4]byte
		for i := range w {
			w[i] = byte(wv[i])
		}
		keys := uint32(w[0]) | uint32(w[1])<<8 | uint32(w[2])<<16 | uint32(w[3])<<24
		res := art.VerifProbe4(keys, uint8(n))
		for b := 0; b < 256; b++ {
			find[b] = int(res[b])
			search[b] = art.VerifSearchNode4(keys, byte(b))
			ipos[b] = art.VerifInsertPosNode4(keys, byte(b))
		}
		wb = w[:]
	} else {
		var w [16]byte
		for i := range w {
			w[i] = byte(wv[i])
		}
		res := art.VerifProbe16(w, uint8(n))
		for b := 0; b < 256; b++ {
			find[b] = int(res[b])
			search[b] = art.VerifSearchNode16(&w, uint8(n), byte(b))
			ipos[b] = art.VerifInsertPosNode16(&w, uint8(n), byte(b))
		}
		wb = w[:]
	}
	tr.start(op)
	tr.fBytes("w", wb)
	tr.fInt("n", n)
	tr.fInts("find", find[:])
	tr.fInts("search", search[:])
	tr.fInts("ipos", ipos[:])
	tr.emit()
}

func init() { extraCmds["noderun"] = cmdNodeRerun }
