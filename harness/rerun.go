package main

import (
	"bufio"
	"encoding/json"
	"flag"
	"os"
)

// cmdRerun re-executes, in this fresh process, exactly the calls logged in a
// recorded trace segment (operation and arguments only; results are recomputed)
// and records a new trace. Used to confirm a violation before it is reported
// and by --replay.
func cmdRerun(args []string) {
	fs := flag.NewFlagSet("rerun", flag.ExitOnError)
	in := fs.String("in", "", "")
	out := fs.String("out", "rerun.ndjson", "")
	stats := fs.String("stats", "", "")
	fs.Parse(args)
	f, err := os.Open(*in)
	if err != nil {
		fatal("%v", err)
	}
	defer f.Close()
	sc := bufio.NewScanner(f)
	sc.Buffer(make([]byte, 1<<20), 1<<28)
	tr := NewTrace(*out)
	recs := map[int]*Rec{}
	type item struct {
		Op    string `json:"op"`
		K     int    `json:"k"`
		A     int    `json:"a"`
		B     int    `json:"b"`
		N     int    `json:"n"`
		NX    *int   `json:"nx"`
		P     int    `json:"p"`
		Seq   string `json:"seq"`
		Stops []int  `json:"stops"`
		Req   []int  `json:"req"`
		Nest  []int  `json:"nest"`
	}
	type line struct {
		Items []item            `json:"items"`
		Ops   []json.RawMessage `json:"ops"`
		Op    string            `json:"op"`
		T     int               `json:"t"`
		Name  string            `json:"name"`
		Raw   []struct {
			B []int `json:"b"`
			P bool  `json:"p"`
		} `json:"raw"`
		K     int    `json:"k"`
		A     int    `json:"a"`
		B     int    `json:"b"`
		N     int    `json:"n"`
		NX    *int   `json:"nx"`
		P     int    `json:"p"`
		Seq   string `json:"seq"`
		Stops []int  `json:"stops"`
		Req   []int  `json:"req"`
		Nest  []int  `json:"nest"`
		Hasd  bool   `json:"hasd"`
	}
	st := Stats{Cmd: "rerun"}
	for sc.Scan() {
		if len(sc.Bytes()) == 0 {
			continue
		}
		var e line
		if err := json.Unmarshal(sc.Bytes(), &e); err != nil {
			fatal("bad line: %v", err)
		}
		switch e.Op {
		case "reset":
			tr.Reset()
			recs = map[int]*Rec{}
			continue
		case "new":
			var raw []RawKey
			for _, r := range e.Raw {
				b := make([]byte, len(r.B))
				for i, x := range r.B {
					b[i] = byte(x)
				}
				raw = append(raw, RawKey{B: b, Probe: r.P})
			}
			recs[e.T] = NewRec(NewDriver(e.Name, raw), e.T, tr, 1)
			st.Segments++
			continue
		case "Note":
			continue
		}
		rec := recs[e.T]
		if rec == nil {
			fatal("line for undeclared tree %d", e.T)
		}
		read := func(it item) {
			if it.NX != nil {
				it.N = *it.NX // the real TopK/BottomK argument selector
			}
			switch it.Op {
			case "Search":
				rec.Search(it.K)
			case "Min", "Max":
				rec.MinMax(it.Op)
			case "All", "Backward":
				rec.Seq(it.Op, 0, 0, 0)
			case "TopK", "BottomK":
				rec.Seq(it.Op, 0, 0, it.N)
			case "RangeC":
				rec.rangeC(it.A, it.B)
			case "Range":
				rec.Seq("Range", it.A, it.B, 0)
			case "Prefix":
				rec.Seq("Prefix", it.P, 0, 0)
			case "Dump":
				rec.DumpLine()
			case "Iter":
				stops := it.Req
				for i := 0; i < len(it.Stops) && len(it.Req) == 0; i++ {
					isNest := false
					for _, n := range it.Nest {
						if n == i {
							isNest = true
						}
					}
					switch {
					case isNest:
						stops = append(stops, -2)
						i++ // the inner pass was logged as a pass of its own
					case it.Stops[i] >= 1<<20:
						stops = append(stops, -1)
					default:
						stops = append(stops, it.Stops[i])
					}
				}
				a := it.A
				if it.Seq == "Prefix" {
					a = it.P
				}
				rec.IterCheck(it.Seq, a, it.B, it.N, stops)
			}
		}
		switch e.Op {
		case "clear":
			rec.Clear()
			st.Segments++
		case "Insert":
			rec.DumpAll = e.Hasd
			rec.Insert(e.K)
		case "Delete":
			rec.DumpAll = e.Hasd
			rec.Delete(e.K)
		case "Pre":
			var ops []opT
			for _, r := range e.Ops {
				var tri []json.RawMessage
				json.Unmarshal(r, &tri)
				var o opT
				json.Unmarshal(tri[0], &o.Op)
				json.Unmarshal(tri[1], &o.K)
				ops = append(ops, o)
			}
			rec.Pre(ops)
		case "Batch":
			rec.BeginBatch()
			for _, it := range e.Items {
				read(it)
			}
			rec.EndBatch()
		case "GC":
			envGC(tr)
		default:
			read(item{Op: e.Op, K: e.K, A: e.A, B: e.B, N: e.N, NX: e.NX, P: e.P, Seq: e.Seq, Stops: e.Stops, Req: e.Req, Nest: e.Nest})
		}
	}
	tr.Close()
	st.Lines = tr.Lines
	for _, r := range recs {
		st.Ops += r.Ops
		st.Panics += r.Panics
	}
	writeStats(*stats, st)
}

func init() { extraCmds["rerun"] = cmdRerun }
