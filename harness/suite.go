package main

// suite: the repository's OWN test suite as a source of executions.
//
// The tests are run unedited with the verif build tag and GOART_VERIF_RECORD set, so every tree a
// constructor returns is a transparent recorder (verif_record.go in the library) that logs each
// public call with its arguments and results. This command turns that log into TraceArt traces:
// per tree, the keys that occur are ranked by the harness's oracle comparator for the tree's
// family (never by the library's encoders), and each call becomes one trace line that TLC judges
// against the specification exactly like the lines of the harness's own drivers.
//
// Trees with more keys than -maxn are validated through key-sample PROJECTIONS: the ideal map
// restricted to a subset S of the keys is an ideal map over S, a sequence restricted to S is the
// specified sequence over S, and the size is the reported size minus the number of keys outside
// S that the recorded history leaves present. Calls whose result cannot be projected (Minimum,
// Maximum, TopK, BottomK, passes stopped early) are left out of projections.

import (
	"bufio"
	"bytes"
	"encoding/hex"
	"encoding/json"
	"flag"
	"fmt"
	"hash/fnv"
	"math"
	"os"
	"os/exec"
	"path/filepath"
	"sort"
	"strconv"
	"strings"
)

type recLine struct {
	Op      string   `json:"op"`
	ID      int      `json:"id"`
	Family  string   `json:"family"`
	Ktype   string   `json:"ktype"`
	K       *string  `json:"k"`
	Kck     string   `json:"k_ck"`
	A       *string  `json:"a"`
	Ack     string   `json:"a_ck"`
	B       *string  `json:"b"`
	Bck     string   `json:"b_ck"`
	P       *string  `json:"p"`
	Pck     string   `json:"p_ck"`
	V       string   `json:"v"`
	Found   bool     `json:"found"`
	Res     bool     `json:"res"`
	Stopped bool     `json:"stopped"`
	Sz      int      `json:"sz"`
	N       uint64   `json:"n"`
	Keys    []string `json:"keys"`
	Vals    []string `json:"vals"`
	total   int      // ideal number of present keys after this call (all keys), for projections
}

type suiteTree struct {
	id            int
	family, ktype string
	lines         []*recLine
	nIns, nLines  int
	truncated     bool
	big           bool                // validated through key-sample projections
	m             int                 // number of hash classes
	slots         map[int]bool        // the classes of the chosen projections
	present       map[string]struct{} // pass 2: the history's ideal content (all keys)
}

// suiteKey is one key of a tree's universe.
type suiteKey struct {
	raw      string // hex as logged
	ident    string // identity (NaNs collapse)
	o        []byte // original bytes (byte-string and collation trees), else the raw big-endian pattern
	ck       []byte // collation sort key
	u        uint64
	inserted bool
}

func suiteIdent(family string, raw string) (string, uint64) {
	switch family {
	case "unsigned", "signed", "float":
		u, _ := strconv.ParseUint(raw, 16, 64)
		if family == "float" {
			f := math.Float64frombits(u)
			if f != f {
				return "NaN", u
			}
		}
		return raw, u
	}
	return raw, 0
}

func suiteCmp(family string) func(a, b *suiteKey) int {
	switch family {
	case "unsigned":
		return func(a, b *suiteKey) int { return cmpOrdered(a.u, b.u) }
	case "signed":
		return func(a, b *suiteKey) int { return cmpOrdered(int64(a.u), int64(b.u)) }
	case "float":
		return func(a, b *suiteKey) int { return floatCmp(math.Float64frombits(a.u), math.Float64frombits(b.u)) }
	case "collation":
		return func(a, b *suiteKey) int { return bytes.Compare(a.ck, b.ck) }
	}
	return func(a, b *suiteKey) int { return bytes.Compare(a.o, b.o) }
}

func hashMod(s string, m int) int {
	h := fnv.New32a()
	h.Write([]byte(s))
	return int(h.Sum32() % uint32(m))
}

type suiteStats struct {
	trees, small, projected, projections, skippedTwins, skippedD2, truncated int
	calls, lines                                                             int
	families                                                                 map[string]int
	skippedCalls                                                             map[string]int
}

func cmdSuite(args []string) {
	fs := flag.NewFlagSet("suite", flag.ExitOnError)
	repo := fs.String("repo", "/repo", "")
	out := fs.String("out", "suite.ndjson", "")
	stats := fs.String("stats", "", "")
	maxOps := fs.Int("max", 1500, "calls recorded per tree (0 = all)")
	maxN := fs.Int("maxn", 400, "largest universe validated whole; larger trees through projections")
	nproj := fs.Int("proj", 3, "projections per large tree")
	run := fs.String("run", ".", "test selection")
	seed := fs.Int64("seed", 1, "")
	keep := fs.Bool("keep", false, "")
	fs.Parse(args)

	recdir := *out + ".rec"
	os.RemoveAll(recdir)
	if err := os.MkdirAll(recdir, 0o755); err != nil {
		fatal("%v", err)
	}
	abs, _ := filepath.Abs(recdir)
	cmd := exec.Command("go", "test", "-tags", "verif", "-vet=off", "-count=1", "-run", *run, ".")
	cmd.Dir = *repo
	// the same offline Go settings the harness itself is built with
	for _, kv := range os.Environ() {
		if strings.HasPrefix(kv, "GOSUMDB=") || strings.HasPrefix(kv, "GOFLAGS=") || strings.HasPrefix(kv, "GOPROXY=") || kv == "GOTOOLCHAIN=local" {
			continue
		}
		cmd.Env = append(cmd.Env, kv)
	}
	cmd.Env = append(cmd.Env, "GOFLAGS=-mod=mod", "GOPROXY=off", "GOART_VERIF_RECORD="+abs, "GOART_VERIF_RECORD_MAX="+strconv.Itoa(*maxOps))
	if o, err := cmd.CombinedOutput(); err != nil {
		fatal("the repository's tests do not pass under -tags verif with the recorder on: %v\n%s", err, tail(string(o), 1500))
	}
	files, _ := filepath.Glob(filepath.Join(recdir, "rec-*.ndjson"))
	if len(files) == 0 {
		fatal("the test run recorded nothing (is verif_record.go in the tree?)")
	}
	trees := map[int]*suiteTree{}
	var order []int
	// pass 1: how large is each tree? (tree ids are per process: qualified by the file they come from)
	head := func(line []byte) (string, int) {
		// {"op":"X","id":N...
		if !bytes.HasPrefix(line, []byte(`{"op":"`)) {
			return "", 0
		}
		r := line[7:]
		q := bytes.IndexByte(r, '"')
		if q < 0 || !bytes.HasPrefix(r[q:], []byte(`","id":`)) {
			return "", 0
		}
		op := string(r[:q])
		r = r[q+7:]
		n := 0
		for _, c := range r {
			if c < '0' || c > '9' {
				break
			}
			n = n*10 + int(c-'0')
		}
		return op, n
	}
	scanAll := func(f func(fi int, line []byte)) {
		for fi, fn := range files {
			fh, err := os.Open(fn)
			if err != nil {
				fatal("%v", err)
			}
			sc := bufio.NewScanner(fh)
			sc.Buffer(make([]byte, 1<<20), 1<<30)
			for sc.Scan() {
				f(fi, sc.Bytes())
			}
			fh.Close()
		}
	}
	scanAll(func(fi int, line []byte) {
		op, id := head(line)
		id += fi << 32
		switch op {
		case "":
			fatal("bad record: %s", tail(string(line), 200))
		case "new":
			e := &recLine{}
			json.Unmarshal(line, e)
			trees[id] = &suiteTree{id: id, family: e.Family, ktype: e.Ktype}
			order = append(order, id)
		case "Truncated":
			trees[id].truncated = true
		case "Insert":
			trees[id].nIns++
		}
	})
	for _, t := range trees {
		if t.nIns > *maxN {
			// validated through key-sample projections: only the calls on keys of the chosen hash classes are kept
			t.big = true
			t.m = (t.nIns + *maxN/2 - 1) / (*maxN / 2)
			t.slots = map[int]bool{}
			for r := 0; r < *nproj && r < t.m; r++ {
				t.slots[(r+int(*seed))%t.m] = true
			}
			t.present = map[string]struct{}{}
		}
	}
	// pass 2
	scanAll(func(fi int, line []byte) {
		op, id := head(line)
		if op == "new" || op == "Truncated" {
			return
		}
		t := trees[id+fi<<32]
		e := &recLine{}
		if err := json.Unmarshal(line, e); err != nil {
			fatal("bad record: %v", err)
		}
		t.nLines++
		if !t.big {
			t.lines = append(t.lines, e)
			return
		}
		keep := e.K == nil
		if e.K != nil {
			kid, _ := suiteIdent(t.family, *e.K)
			switch e.Op {
			case "Insert":
				t.present[kid] = struct{}{}
			case "Delete":
				delete(t.present, kid)
			}
			keep = t.slots[hashMod(kid, t.m)]
		}
		e.total = len(t.present)
		if !keep {
			return
		}
		if len(e.Keys) > 0 {
			var ks, vs []string
			for i, raw := range e.Keys {
				kid, _ := suiteIdent(t.family, raw)
				if t.slots[hashMod(kid, t.m)] {
					ks = append(ks, strings.Clone(raw))
					vs = append(vs, strings.Clone(e.Vals[i]))
				}
			}
			e.Keys, e.Vals = ks, vs
		}
		t.lines = append(t.lines, e)
	})
	if !*keep {
		os.RemoveAll(recdir)
	}
	st := &suiteStats{families: map[string]int{}, skippedCalls: map[string]int{}}
	w, err := os.Create(*out)
	if err != nil {
		fatal("%v", err)
	}
	bw := bufio.NewWriterSize(w, 1<<20)
	first := true
	for _, id := range order {
		t := trees[id]
		if len(t.lines) == 0 {
			continue
		}
		st.trees++
		st.families[t.family+"/"+t.ktype]++
		if t.truncated {
			st.truncated++
		}
		suiteEmitTree(bw, t, *maxN, *nproj, *seed, st, &first)
	}
	bw.Flush()
	w.Close()
	var fam []string
	for k, v := range st.families {
		fam = append(fam, fmt.Sprintf("%s x%d", k, v))
	}
	sort.Strings(fam)
	var sk []string
	for k, v := range st.skippedCalls {
		sk = append(sk, fmt.Sprintf("%s x%d", k, v))
	}
	sort.Strings(sk)
	sample := fmt.Sprintf("repository tests (-run %s) under the call recorder: %d trees (%s); %d validated whole, %d through %d key-sample projections; "+
		"%d cut at %d calls; left out: %d trees with keys that collate equal, %d inside known finding D2, calls %v",
		*run, st.trees, strings.Join(fam, ", "), st.small, st.projected, st.projections, st.truncated, *maxOps, st.skippedTwins, st.skippedD2, sk)
	writeStats(*stats, Stats{Cmd: "suite", Kind: "suite", Lines: st.lines, Segments: st.small + st.projections, Ops: st.calls,
		Samples: []string{sample}, Extra: map[string]int{"trees": st.trees, "projected_trees": st.projected, "projections": st.projections}})
}

func intsJSON(xs []int) string {
	var sb strings.Builder
	sb.WriteByte('[')
	for i, x := range xs {
		if i > 0 {
			sb.WriteByte(',')
		}
		sb.WriteString(strconv.Itoa(x))
	}
	sb.WriteByte(']')
	return sb.String()
}

func tail(s string, n int) string {
	if len(s) <= n {
		return s
	}
	return s[len(s)-n:]
}

// suiteEmitTree writes the segment(s) of one recorded tree.
func suiteEmitTree(bw *bufio.Writer, t *suiteTree, maxN, nproj int, seed int64, st *suiteStats, first *bool) {
	// ---- the keys that occur, by identity
	keys := map[string]*suiteKey{}
	add := func(raw *string, ck string, inserted bool) *suiteKey {
		if raw == nil {
			return nil
		}
		id, u := suiteIdent(t.family, *raw)
		k := keys[id]
		if k == nil {
			k = &suiteKey{raw: *raw, ident: id, u: u}
			switch t.family {
			case "unsigned", "signed", "float":
				k.o = patBytes(u, 8)
			default:
				k.o, _ = hex.DecodeString(*raw)
			}
			keys[id] = k
		}
		if ck != "" && k.ck == nil {
			k.ck, _ = hex.DecodeString(ck)
		}
		k.inserted = k.inserted || inserted
		return k
	}
	present := map[string]bool{} // the history's ideal content (whole trees; projections got theirs while reading)
	for _, e := range t.lines {
		add(e.K, e.Kck, e.Op == "Insert")
		add(e.A, e.Ack, false)
		add(e.B, e.Bck, false)
		add(e.P, e.Pck, false)
		if e.K != nil && !t.big {
			id, _ := suiteIdent(t.family, *e.K)
			switch e.Op {
			case "Insert":
				present[id] = true
			case "Delete":
				delete(present, id)
			}
		}
		if !t.big {
			e.total = len(present)
		}
	}
	all := make([]*suiteKey, 0, len(keys))
	for _, k := range keys {
		all = append(all, k)
	}
	cmp := suiteCmp(t.family)
	if t.family == "collation" {
		// the order is the collator's: every key must have come with its sort key, and distinct keys that
		// collate equal have no specified relative order - such trees are left out
		for _, k := range all {
			if k.ck == nil {
				st.skippedTwins++
				return
			}
		}
	}
	sort.Slice(all, func(i, j int) bool {
		if c := cmp(all[i], all[j]); c != 0 {
			return c < 0
		}
		return all[i].ident < all[j].ident
	})
	for i := 1; i < len(all); i++ {
		if cmp(all[i-1], all[i]) == 0 {
			st.skippedTwins++
			return
		}
	}
	if t.family == "alpha" {
		// known finding D2 (keys with an embedded 0x00 that are not prefix-free under the terminator)
		var ins [][]byte
		for _, k := range all {
			if k.inserted {
				ins = append(ins, k.o)
			}
		}
		for i := 1; i < len(ins); i++ { // sorted: a prefix pair is adjacent-or-close; check against all earlier prefixes
			for j := i - 1; j >= 0 && j >= i-64; j-- {
				a, b := ins[j], ins[i]
				if len(b) > len(a) && bytes.HasPrefix(b, a) && b[len(a)] == 0 {
					st.skippedD2++
					return
				}
			}
		}
	}
	if !t.big {
		st.small++
		suiteEmitSegment(bw, t, all, nil, st, first)
		return
	}
	st.projected++
	m := t.m
	var slots []int
	for sl := range t.slots {
		slots = append(slots, sl)
	}
	sort.Ints(slots)
	for _, slot := range slots {
		var sub []*suiteKey
		in := map[string]bool{}
		for _, k := range all {
			if k.inserted && hashMod(k.ident, m) == slot {
				in[k.ident] = true
			}
		}
		// bounds and prefixes of the calls keep their place in the order as probe-only keys
		arg := map[string]bool{}
		for _, e := range t.lines {
			for _, p := range []*string{e.A, e.B, e.P} {
				if p != nil {
					id, _ := suiteIdent(t.family, *p)
					arg[id] = true
				}
			}
		}
		for _, k := range all {
			if in[k.ident] || arg[k.ident] {
				sub = append(sub, k)
			}
		}
		st.projections++
		suiteEmitSegment(bw, t, sub, in, st, first)
	}
}

// suiteEmitSegment writes one tree (or one projection of it: sample != nil) as a trace segment.
func suiteEmitSegment(bw *bufio.Writer, t *suiteTree, uni []*suiteKey, sample map[string]bool, st *suiteStats, first *bool) {
	rank := map[string]int{}
	for i, k := range uni {
		rank[k.ident] = i + 1
	}
	vals := map[string]int{}
	valID := func(s string) int {
		if id, ok := vals[s]; ok {
			return id
		}
		vals[s] = len(vals) + 1
		return len(vals)
	}
	var b []byte
	ints := func(name string, xs []int) {
		b = append(b, ',', '"')
		b = append(b, name...)
		b = append(b, `":[`...)
		for i, x := range xs {
			if i > 0 {
				b = append(b, ',')
			}
			b = strconv.AppendInt(b, int64(x), 10)
		}
		b = append(b, ']')
	}
	rawBytes := func(x []byte) {
		b = append(b, '[')
		for i, c := range x {
			if i > 0 {
				b = append(b, ',')
			}
			b = strconv.AppendInt(b, int64(c), 10)
		}
		b = append(b, ']')
	}
	flush := func() {
		b = append(b, '\n')
		bw.Write(b)
		b = b[:0]
		st.lines++
	}
	if !*first {
		b = append(b, `{"op":"reset"}`...)
		flush()
	}
	*first = false
	b = append(b, fmt.Sprintf(`{"op":"new","t":1,"kind":%q,"name":%q,"u":[`, t.family, "suite:"+t.family+"/"+t.ktype)...)
	for i, k := range uni {
		if i > 0 {
			b = append(b, ',')
		}
		b = append(b, `{"o":`...)
		rawBytes(k.o)
		b = append(b, `,"t":[]}`...)
	}
	b = append(b, `],"dg":"","sg":""`...)
	b = append(b, '}')
	flush()

	inSample := func(id string) bool { return sample == nil || sample[id] }
	sampleCount := 0 // ideal number of present sample keys (projections)
	samplePresent := map[string]bool{}
	common := func(e *recLine) {
		sz := e.Sz
		if sample != nil {
			sz = e.Sz - e.total + sampleCount
		}
		b = append(b, fmt.Sprintf(`,"t":1,"pan":"","sz":%d,"dg":"","sg":"","hasd":false}`, sz)...)
		flush()
		st.calls++
	}
	skip := func(why string) { st.skippedCalls[why]++ }
	rk := func(p *string) (int, string) {
		id, _ := suiteIdent(t.family, *p)
		return rank[id], id
	}
	// a yielded sequence in ranks (restricted to the sample); a key outside the universe becomes rank 0 (never expected)
	seqOf := func(e *recLine) ([]int, []int) {
		var ks, vs []int
		for i, raw := range e.Keys {
			id, _ := suiteIdent(t.family, raw)
			r := rank[id] // 0 for a key that never occurred as an argument: never expected
			if sample != nil && !sample[id] {
				continue
			}
			ks = append(ks, r)
			vs = append(vs, valID(e.Vals[i]))
		}
		return ks, vs
	}
	maxPresent := func() int {
		mx := 0
		for id := range samplePresent {
			if rank[id] > mx {
				mx = rank[id]
			}
		}
		return mx
	}
	for _, e := range t.lines {
		switch e.Op {
		case "Insert", "Delete", "Search":
			r, id := rk(e.K)
			if !inSample(id) {
				continue
			}
			switch e.Op {
			case "Insert":
				if !samplePresent[id] {
					samplePresent[id] = true
					sampleCount++
				}
				b = append(b, fmt.Sprintf(`{"op":"Insert","k":%d,"v":%d`, r, valID(e.V))...)
			case "Delete":
				if samplePresent[id] {
					delete(samplePresent, id)
					sampleCount--
				}
				b = append(b, fmt.Sprintf(`{"op":"Delete","k":%d,"res":%v`, r, e.Res)...)
			case "Search":
				v := 0
				if e.Found {
					v = valID(e.V)
				}
				b = append(b, fmt.Sprintf(`{"op":"Search","k":%d,"found":%v,"val":%d`, r, e.Found, v)...)
			}
			common(e)
		case "Size":
			b = append(b, `{"op":"Size"`...)
			common(e)
		case "Min", "Max":
			if sample != nil {
				skip(e.Op + " (projection)")
				continue
			}
			r, v := 0, 0
			if e.Found {
				r, _ = rk(e.K)
				v = valID(e.V)
			}
			b = append(b, fmt.Sprintf(`{"op":%q,"found":%v,"k":%d,"v":%d`, e.Op, e.Found, r, v)...)
			common(e)
		case "All", "Backward", "TopK", "BottomK", "Range", "Prefix":
			if sample != nil && (e.Stopped || e.Op == "TopK" || e.Op == "BottomK") {
				skip(e.Op + " (projection)")
				continue
			}
			var args string
			a, bb, p, n, open := 0, 0, 0, 0, false
			switch e.Op {
			case "TopK", "BottomK":
				n = int(min(e.N, 1<<30-1))
				args = fmt.Sprintf(`,"n":%d,"nx":%d`, n, n)
			case "Range":
				var ida, idb string
				a, ida = rk(e.A)
				bb, idb = rk(e.B)
				_ = ida
				if (t.family == "alpha") && len(*e.B) == 0 {
					// byte-string trees: an empty end bound means "up to the largest stored key"
					open, bb = true, 0
					if a > maxPresent() && sample == nil {
						skip("Range open end, start above the maximum")
						continue
					}
					if sample != nil {
						skip("Range open end (projection)")
						continue
					}
				}
				if t.family == "float" {
					fa, _ := strconv.ParseUint(*e.A, 16, 64)
					fb, _ := strconv.ParseUint(*e.B, 16, 64)
					if !floatRangeOK(math.Float64frombits(fa), math.Float64frombits(fb)) {
						skip("Range outside the float domain")
						continue
					}
				}
				_ = idb
				args = fmt.Sprintf(`,"a":%d,"b":%d,"open":%v`, a, bb, open)
			case "Prefix":
				if t.family != "alpha" && t.family != "collation" {
					skip("Prefix on a " + t.family + " tree")
					continue
				}
				p, _ = rk(e.P)
				args = fmt.Sprintf(`,"p":%d`, p)
			}
			ks, vs := seqOf(e)
			if e.Stopped {
				b = append(b, fmt.Sprintf(`{"op":"Iter","seq":%q,"n":%d,"nx":%d,"a":%d,"b":%d,"p":%d,"open":%v`, e.Op, n, n, a, bb, p, open)...)
				ints("stops", []int{len(ks)})
				ints("req", []int{len(ks)})
				ints("nest", nil)
				b = append(b, (`,"passes":[` + intsJSON(ks) + `],"pvals":[` + intsJSON(vs) + `],"late":0`)...)
			} else {
				b = append(b, fmt.Sprintf(`{"op":%q`, e.Op)...)
				b = append(b, args...)
				ints("keys", ks)
				ints("vals", vs)
			}
			common(e)
		}
	}
}

func init() {
	extraCmds["suite"] = cmdSuite
}
