package main

import (
	"bufio"
	"fmt"
	"math/rand"
	"os"
	"strconv"

	art "github.com/Clement-Jean/go-art"
)

// Trace writes ndjson lines for TraceArt.tla.
type Trace struct {
	f     *os.File
	w     *bufio.Writer
	Lines int
	buf   []byte
}

func NewTrace(path string) *Trace {
	f, err := os.Create(path)
	if err != nil {
		fatal("create trace: %v", err)
	}
	return &Trace{f: f, w: bufio.NewWriterSize(f, 1<<20)}
}

func (t *Trace) Close() {
	t.w.Flush()
	t.f.Close()
}

func (t *Trace) emit() {
	t.buf = append(t.buf, '}', '\n')
	t.w.Write(t.buf)
	t.Lines++
}

func (t *Trace) start(op string) {
	t.buf = t.buf[:0]
	t.buf = append(t.buf, `{"op":"`...)
	t.buf = append(t.buf, op...)
	t.buf = append(t.buf, '"')
}

func (t *Trace) fInt(name string, v int) {
	t.buf = append(t.buf, ',', '"')
	t.buf = append(t.buf, name...)
	t.buf = append(t.buf, '"', ':')
	t.buf = strconv.AppendInt(t.buf, int64(v), 10)
}

func (t *Trace) fBool(name string, v bool) {
	t.buf = append(t.buf, ',', '"')
	t.buf = append(t.buf, name...)
	t.buf = append(t.buf, '"', ':')
	t.buf = strconv.AppendBool(t.buf, v)
}

func (t *Trace) fStr(name string, v string) {
	t.buf = append(t.buf, ',', '"')
	t.buf = append(t.buf, name...)
	t.buf = append(t.buf, '"', ':')
	t.buf = strconv.AppendQuote(t.buf, v)
}

func (t *Trace) rawInts(v []int) {
	t.buf = append(t.buf, '[')
	for i, x := range v {
		if i > 0 {
			t.buf = append(t.buf, ',')
		}
		t.buf = strconv.AppendInt(t.buf, int64(x), 10)
	}
	t.buf = append(t.buf, ']')
}

func (t *Trace) rawBytes(v []byte) {
	t.buf = append(t.buf, '[')
	for i, x := range v {
		if i > 0 {
			t.buf = append(t.buf, ',')
		}
		t.buf = strconv.AppendInt(t.buf, int64(x), 10)
	}
	t.buf = append(t.buf, ']')
}

func (t *Trace) fInts(name string, v []int) {
	t.buf = append(t.buf, ',', '"')
	t.buf = append(t.buf, name...)
	t.buf = append(t.buf, '"', ':')
	t.rawInts(v)
}

func (t *Trace) fBytes(name string, v []byte) {
	t.buf = append(t.buf, ',', '"')
	t.buf = append(t.buf, name...)
	t.buf = append(t.buf, '"', ':')
	t.rawBytes(v)
}

func (t *Trace) fIntss(name string, v [][]int) {
	t.buf = append(t.buf, ',', '"')
	t.buf = append(t.buf, name...)
	t.buf = append(t.buf, '"', ':', '[')
	for i, x := range v {
		if i > 0 {
			t.buf = append(t.buf, ',')
		}
		t.rawInts(x)
	}
	t.buf = append(t.buf, ']')
}

func (t *Trace) rawDump(d TreeDriver, n *art.VerifNode) {
	if n == nil {
		t.buf = append(t.buf, `{"kind":"empty","n":0,"real":0,"plen":0,"pfx":[],"bytes":[],"ch":[],"k":0,"tk":[],"val":0}`...)
		return
	}
	if n.Kind == "leaf" {
		t.buf = append(t.buf, `{"kind":"leaf","n":0,"real":0,"plen":0,"pfx":[],"bytes":[],"ch":[],"k":`...)
		t.buf = strconv.AppendInt(t.buf, int64(d.LeafRank(n)), 10)
		t.buf = append(t.buf, `,"tk":`...)
		t.rawBytes(n.TKey)
		t.buf = append(t.buf, `,"val":`...)
		t.buf = strconv.AppendInt(t.buf, int64(d.ValID(n.Val)), 10)
		t.buf = append(t.buf, '}')
		return
	}
	t.buf = append(t.buf, `{"kind":"`...)
	t.buf = append(t.buf, n.Kind...)
	t.buf = append(t.buf, `","n":`...)
	t.buf = strconv.AppendInt(t.buf, int64(n.N), 10)
	t.buf = append(t.buf, `,"real":`...)
	t.buf = strconv.AppendInt(t.buf, int64(n.Real), 10)
	t.buf = append(t.buf, `,"plen":`...)
	t.buf = strconv.AppendInt(t.buf, int64(n.PLen), 10)
	t.buf = append(t.buf, `,"pfx":`...)
	t.rawBytes(n.Pfx)
	t.buf = append(t.buf, `,"bytes":`...)
	t.rawBytes(n.Bytes)
	t.buf = append(t.buf, `,"ch":[`...)
	for i, c := range n.Ch {
		if i > 0 {
			t.buf = append(t.buf, ',')
		}
		t.rawDump(d, c)
	}
	t.buf = append(t.buf, `],"k":0,"tk":[],"val":0}`...)
}

func (t *Trace) Reset() {
	t.start("reset")
	t.emit()
}

func (t *Trace) Note(s string) {
	t.start("Note")
	t.fStr("msg", s)
	t.emit()
}

// ---- Recorder: one real tree, every call logged -------------------------------

// (RangeC: Range on a kind for which its content has no map-level meaning - collation - logged for the drift check)
type Battery struct {
	IterOnly []string // restrict the abandon / re-iterate checks to these sequence methods
	RangeC   int
	Search   bool // Search of every universe key
	Iter     bool // All, Backward
	MinMax   bool
	TopK     bool
	Range    int // number of bound pairs (-1 = all)
	Prefix   int // number of probes (-1 = all)
	IterChk  int // number of abandon/re-iterate checks
	Dump     bool
}

type Rec struct {
	D       TreeDriver
	T       int // tree index in the trace (1..8)
	Tr      *Trace
	nextVal int
	Dead    bool // a call panicked: the tree is no longer used
	DumpAll bool // attach a structural dump to every mutating line
	R       *rand.Rand
	Digests map[string]struct{} // distinct post-state digests seen (evidence)
	Ops     int
	Panics  int
	batch   bool
	items   [][]byte
	// PostCall runs after every logged call (used to log what happened to caller memory)
	PostCall func()
	// BetweenPasses runs between two passes over one sequence value
	BetweenPasses func()
	// AfterCreate runs when a sequence method has returned its sequence, before it is ranged over
	AfterCreate func()
	NoBatch     bool
	Light       bool // no digest per line (dg = ""): only for runs whose invariants do not use digests
	probes      []int
	iterOnly    []string
}

func NewRec(d TreeDriver, t int, tr *Trace, seed int64) *Rec {
	r := &Rec{D: d, T: t, Tr: tr, DumpAll: true, R: rand.New(rand.NewSource(seed)), Digests: map[string]struct{}{}}
	r.New()
	return r
}

// Clear starts a new tree over the same universe (cheaper than New in the trace).
func (r *Rec) Clear() {
	r.D.Reset()
	r.Dead = false
	tr := r.Tr
	tr.start("clear")
	tr.fInt("t", r.T)
	n, sz := r.D.Dump()
	tr.fStr("dg", digestDump(r.D, n, sz, true))
	tr.fStr("sg", digestDump(r.D, n, sz, false))
	tr.emit()
}

func (r *Rec) New() {
	r.D.Reset()
	r.Dead = false
	tr := r.Tr
	tr.start("new")
	tr.fInt("t", r.T)
	tr.fStr("kind", r.D.Family())
	tr.fStr("name", r.D.Name())
	tr.buf = append(tr.buf, `,"u":[`...)
	for i, e := range r.D.Universe() {
		if i > 0 {
			tr.buf = append(tr.buf, ',')
		}
		tr.buf = append(tr.buf, `{"o":`...)
		tr.rawBytes(e.O)
		tr.buf = append(tr.buf, `,"t":`...)
		tr.rawBytes(e.T)
		tr.buf = append(tr.buf, '}')
	}
	tr.buf = append(tr.buf, ']')
	tr.buf = append(tr.buf, `,"raw":[`...)
	for i, e := range r.D.Raw() {
		if i > 0 {
			tr.buf = append(tr.buf, ',')
		}
		tr.buf = append(tr.buf, `{"b":`...)
		tr.rawBytes(e.B)
		tr.buf = append(tr.buf, `,"p":`...)
		tr.buf = strconv.AppendBool(tr.buf, e.Probe)
		tr.buf = append(tr.buf, '}')
	}
	tr.buf = append(tr.buf, ']')
	n, sz := r.D.Dump()
	tr.fStr("dg", digestDump(r.D, n, sz, true))
	tr.fStr("sg", digestDump(r.D, n, sz, false))
	tr.emit()
}

// guard runs f, converting a panic into its message.
func guard(f func()) (msg string) {
	defer func() {
		if e := recover(); e != nil {
			msg = fmt.Sprint(e)
			if msg == "" {
				msg = "panic"
			}
		}
	}()
	f()
	return ""
}

// tail writes the fields common to every tree line and emits it (or, inside a
// batch of read-only calls, appends it to the batch).
func (r *Rec) tail(pan string, withDump bool) {
	tr := r.Tr
	if !r.batch {
		tr.fInt("t", r.T)
	}
	tr.fStr("pan", pan)
	if pan != "" {
		r.Dead = true
		r.Panics++
		tr.fInt("sz", -1)
		tr.fStr("dg", "")
		tr.fStr("sg", "")
		tr.fBool("hasd", false)
		r.out()
		return
	}
	if r.Light && !withDump {
		// cheap line: no structural walk (used where many operations matter more than a digest per call)
		tr.fInt("sz", r.D.Size())
		tr.fStr("dg", "")
		if !r.batch {
			tr.fStr("sg", "")
		}
		tr.fBool("hasd", false)
		r.out()
		r.Ops++
		return
	}
	var n *art.VerifNode
	var sz int
	if p2 := guard(func() { n, sz = r.D.Dump() }); p2 != "" {
		// the walker itself faulted on a corrupt structure: report as an ill-formed dump
		tr.fInt("sz", r.D.Size())
		tr.fStr("dg", "walker-fault:"+p2)
		tr.fStr("sg", "walker-fault:"+p2)
		tr.fBool("hasd", false)
		r.out()
		r.Dead = true
		return
	}
	tr.fInt("sz", r.D.Size())
	dg := digestDump(r.D, n, sz, true)
	tr.fStr("dg", dg)
	if !r.batch {
		sg := digestDump(r.D, n, sz, false)
		tr.fStr("sg", sg)
		if sz >= 2 { // distinct non-trivial structures reached (values ignored)
			r.Digests[sg] = struct{}{}
		}
	}
	if withDump {
		tr.fBool("hasd", true)
		tr.buf = append(tr.buf, `,"dump":`...)
		tr.rawDump(r.D, n)
	} else {
		tr.fBool("hasd", false)
	}
	r.out()
	r.Ops++
}

func (r *Rec) out() {
	if r.batch {
		it := make([]byte, len(r.Tr.buf)+1)
		copy(it, r.Tr.buf)
		it[len(it)-1] = '}'
		r.items = append(r.items, it)
		return
	}
	r.Tr.emit()
	if r.PostCall != nil {
		r.PostCall()
	}
}

// BeginBatch / EndBatch: the read-only calls in between are logged as ONE line.
func (r *Rec) BeginBatch() {
	if r.Dead || r.NoBatch {
		return
	}
	r.batch = true
	r.items = r.items[:0]
}

func (r *Rec) EndBatch() {
	if !r.batch {
		return
	}
	r.batch = false
	if len(r.items) == 0 {
		return
	}
	tr := r.Tr
	tr.start("Batch")
	tr.fInt("t", r.T)
	tr.buf = append(tr.buf, `,"items":[`...)
	for i, it := range r.items {
		if i > 0 {
			tr.buf = append(tr.buf, ',')
		}
		tr.buf = append(tr.buf, it...)
	}
	tr.buf = append(tr.buf, ']')
	tr.emit()
}

// Pre applies mutating calls whose individual results are not examined again
// (the prefix of a model transition) and logs them as one line.
func (r *Rec) Pre(ops []opT) {
	if r.Dead || len(ops) == 0 {
		return
	}
	type done struct {
		op   string
		k, v int
	}
	var applied []done
	flush := func() {
		tr := r.Tr
		tr.start("Pre")
		tr.buf = append(tr.buf, `,"ops":[`...)
		for i, d := range applied {
			if i > 0 {
				tr.buf = append(tr.buf, ',')
			}
			tr.buf = append(tr.buf, '[', '"')
			tr.buf = append(tr.buf, d.op...)
			tr.buf = append(tr.buf, '"', ',')
			tr.buf = strconv.AppendInt(tr.buf, int64(d.k), 10)
			tr.buf = append(tr.buf, ',')
			tr.buf = strconv.AppendInt(tr.buf, int64(d.v), 10)
			tr.buf = append(tr.buf, ']')
		}
		tr.buf = append(tr.buf, ']')
		r.tail("", false)
	}
	for _, o := range ops {
		switch o.Op {
		case "I":
			r.nextVal++
			v := r.nextVal
			if pan := guard(func() { r.D.Insert(o.K, v) }); pan != "" {
				if len(applied) > 0 {
					flush()
				}
				r.Tr.start("Insert")
				r.Tr.fInt("k", o.K)
				r.Tr.fInt("v", r.D.NormVal(v))
				r.tail(pan, false)
				return
			}
			applied = append(applied, done{"I", o.K, r.D.NormVal(v)})
		case "D":
			var res bool
			if pan := guard(func() { res = r.D.Delete(o.K) }); pan != "" {
				if len(applied) > 0 {
					flush()
				}
				r.Tr.start("Delete")
				r.Tr.fInt("k", o.K)
				r.Tr.fBool("res", res)
				r.tail(pan, false)
				return
			}
			applied = append(applied, done{"D", o.K, 0})
		}
	}
	flush()
}

func (r *Rec) Insert(k int) {
	if r.Dead {
		return
	}
	r.nextVal++
	v := r.nextVal
	pan := guard(func() { r.D.Insert(k, v) })
	r.Tr.start("Insert")
	r.Tr.fInt("k", k)
	r.Tr.fInt("v", r.D.NormVal(v))
	r.tail(pan, r.DumpAll)
}

func (r *Rec) Delete(k int) {
	if r.Dead {
		return
	}
	var res bool
	pan := guard(func() { res = r.D.Delete(k) })
	r.Tr.start("Delete")
	r.Tr.fInt("k", k)
	r.Tr.fBool("res", res)
	r.tail(pan, r.DumpAll)
}

func (r *Rec) Search(k int) {
	if r.Dead {
		return
	}
	var v int
	var ok bool
	pan := guard(func() { v, ok = r.D.Search(k) })
	r.Tr.start("Search")
	r.Tr.fInt("k", k)
	r.Tr.fBool("found", ok)
	r.Tr.fInt("val", v)
	r.tail(pan, false)
}

func (r *Rec) MinMax(which string) {
	if r.Dead {
		return
	}
	var k, v int
	var ok bool
	pan := guard(func() {
		if which == "Min" {
			k, v, ok = r.D.Min()
		} else {
			k, v, ok = r.D.Max()
		}
	})
	r.Tr.start(which)
	r.Tr.fBool("found", ok)
	r.Tr.fInt("k", k)
	r.Tr.fInt("v", v)
	r.tail(pan, false)
}

func (r *Rec) DumpLine() {
	if r.Dead {
		return
	}
	r.Tr.start("Dump")
	r.tail("", true)
}

// seqArgs writes the argument fields of a sequence call. b == 0 means the open
// (empty) end bound of a byte-string Range.
func (r *Rec) seqArgs(name string, a, b, n int) {
	tr := r.Tr
	switch name {
	case "TopK", "BottomK":
		tr.fInt("n", logN(n))
		tr.fInt("nx", n)
	case "Range":
		tr.fInt("a", a)
		tr.fInt("b", b)
		tr.fBool("open", b == 0)
	case "Prefix":
		tr.fInt("p", a)
	}
}

// logN: what the trace says for a TopK/BottomK argument: huge values (selectors -1, -2) are logged as 2^30-1,
// which is larger than any size and fits the model checker's integers; "nx" keeps the selector for re-execution.
func logN(n int) int {
	if n < 0 {
		return 1<<30 - 1
	}
	return n
}

// Seq runs one complete pass over a sequence method and logs it.
func (r *Rec) Seq(name string, a, b, n int) {
	if r.Dead {
		return
	}
	var ks, vs []int
	pan := guard(func() {
		s := r.D.Seq(name, a, b, n)
		if r.AfterCreate != nil {
			r.AfterCreate() // the call has returned its sequence: the caller may reuse its buffers now
		}
		for k, v := range s {
			ks = append(ks, k)
			vs = append(vs, v)
		}
	})
	r.Tr.start(name)
	r.seqArgs(name, a, b, n)
	r.Tr.fInts("keys", ks)
	r.Tr.fInts("vals", vs)
	r.tail(pan, false)
}

// rangeC logs Range of a collation tree (no verdict depends on it; compared with the L1 model as drift).
func (r *Rec) rangeC(a, b int) {
	if r.Dead {
		return
	}
	var ks, vs []int
	pan := guard(func() {
		for k, v := range r.D.Seq("RangeAny", a, b, 0) {
			ks = append(ks, k)
			vs = append(vs, v)
		}
	})
	r.Tr.start("RangeC")
	r.Tr.fInt("a", a)
	r.Tr.fInt("b", b)
	r.Tr.fInts("keys", ks)
	r.Tr.fInts("vals", vs)
	r.tail(pan, false)
}

// IterCheck builds ONE sequence value and ranges over it several times, stopping
// after stops[i] elements (-1: run to completion); counts callbacks after a stop.
func (r *Rec) IterCheck(name string, a, b, n int, stops []int) {
	if r.Dead {
		return
	}
	passes := make([][]int, 0, len(stops))
	pvals := make([][]int, 0, len(stops))
	late := 0
	var nests []int // positions (in the logged stops) of the outer pass of a nested pair
	var lstops []int
	pan := guard(func() {
		s := r.D.Seq(name, a, b, n)
		if r.AfterCreate != nil {
			r.AfterCreate()
		}
		for i, stop := range stops {
			if i > 0 {
				// read-only calls between the passes: the tree is unchanged, the sequence value must not care
				// (chosen as a function of the call, not of the PRNG: a re-execution makes the same calls)
				nk := len(r.D.Universe())
				r.D.Search(1 + (a+3*b+5*i+len(name))%nk)
				r.D.Search(1 + (7*a+b+11*i)%nk)
				r.D.Min()
				if r.BetweenPasses != nil {
					r.BetweenPasses()
				}
			}
			var ks, vs []int
			stopped := false
			if stop == -2 {
				// two passes over the same sequence value alive at the same time: while the outer pass is suspended at
				// its j-th element, a complete inner pass runs; both must deliver the full result
				var iks, ivs []int
				j := 1 + (a+b+i)%3
				ran := false
				inner := func() {
					ran = true
					s(func(k2, v2 int) bool {
						iks = append(iks, k2)
						ivs = append(ivs, v2)
						return true
					})
				}
				s(func(k, v int) bool {
					ks = append(ks, k)
					vs = append(vs, v)
					if len(ks) == j {
						inner()
					}
					return true
				})
				if !ran {
					inner() // the outer pass was shorter than j elements: the inner one simply follows it
				}
				nests = append(nests, len(lstops))
				passes = append(passes, ks, iks)
				pvals = append(pvals, vs, ivs)
				lstops = append(lstops, 1<<20, 1<<20)
				continue
			}
			s(func(k, v int) bool {
				if stopped {
					late++
					return false
				}
				ks = append(ks, k)
				vs = append(vs, v)
				if stop >= 1 && len(ks) >= stop {
					stopped = true
					return false
				}
				return true
			})
			passes = append(passes, ks)
			pvals = append(pvals, vs)
			if stop < 0 {
				lstops = append(lstops, 1<<20)
			} else {
				lstops = append(lstops, stop)
			}
		}
	})
	tr := r.Tr
	tr.start("Iter")
	tr.fStr("seq", name)
	tr.fInt("n", logN(n))
	tr.fInt("nx", n)
	tr.fInt("a", a)
	tr.fInt("b", b)
	tr.fInt("p", a)
	tr.fBool("open", name == "Range" && b == 0)
	tr.fInts("stops", lstops)
	tr.fInts("req", stops) // the stop positions as requested (-1 complete, -2 nested pair): what a re-execution replays, also when the call panicked half way
	tr.fInts("nest", nests)
	tr.fIntss("passes", passes)
	tr.fIntss("pvals", pvals)
	tr.fInt("late", late)
	r.tail(pan, false)
}

// ---- battery of reads on the current state -----------------------------------

func (r *Rec) maxPresentRank() int {
	// the driver's own view, used only to stay inside the Range domain (open end
	// with a start above the maximum is carved out); taken from All() of the real tree
	mx := 0
	guard(func() {
		for k := range r.D.Seq("All", 0, 0, 0) {
			if k > mx {
				mx = k
			}
		}
	})
	return mx
}

func (r *Rec) RangePair(a, b int) {
	d := r.D
	if !d.HasRange() {
		return
	}
	if b == 0 {
		if d.Family() != "alpha" {
			return
		}
		if mx := r.maxPresentRank(); mx != 0 && a > mx {
			return // carved out: empty end bound with a start above the maximum
		}
		r.Seq("Range", a, 0, 0)
		return
	}
	if !d.RangeOK(a, b) {
		return
	}
	// a byte-string bound that is the empty key means "open end" when given as end
	if d.Family() == "alpha" && len(d.Universe()[b-1].O) == 0 {
		if mx := r.maxPresentRank(); mx != 0 && a > mx {
			return
		}
		r.Seq("Range", a, 0, 0)
		return
	}
	r.Seq("Range", a, b, 0)
}

func (r *Rec) RunBattery(bt Battery) {
	r.BeginBatch()
	defer r.EndBatch()
	d := r.D
	n := len(d.Universe())
	if bt.Search {
		for k := 1; k <= n && !r.Dead; k++ {
			r.Search(k)
		}
	}
	if bt.Iter {
		r.Seq("All", 0, 0, 0)
		r.Seq("Backward", 0, 0, 0)
	}
	if bt.MinMax {
		r.MinMax("Min")
		r.MinMax("Max")
	}
	sz := 0
	if !r.Dead {
		sz = d.Size()
	}
	if bt.TopK {
		for _, k := range []int{0, 1, sz - 1, sz, sz + 1, 1000000, -1, -2} {
			if k < -2 || (k < 0 && sz-1 == k) {
				continue
			}
			r.Seq("TopK", 0, 0, k)
			r.Seq("BottomK", 0, 0, k)
		}
	}
	if bt.Range != 0 && d.HasRange() {
		if bt.Range < 0 {
			for a := 1; a <= n; a++ {
				for b := 0; b <= n; b++ {
					r.RangePair(a, b)
				}
			}
		} else {
			for i := 0; i < bt.Range; i++ {
				a := 1 + r.R.Intn(n)
				b := r.R.Intn(n + 1)
				if r.R.Intn(6) == 0 {
					b = a
				}
				r.RangePair(a, b)
			}
		}
	}
	if bt.Prefix != 0 && d.HasPrefix() {
		uni := d.Universe()
		if bt.Prefix < 0 {
			for p := 1; p <= n; p++ {
				if !uni[p-1].Twin {
					r.Seq("Prefix", p, 0, 0)
				}
			}
		} else {
			// the structurally interesting probes always: probe-only entries and entries that are a
			// proper prefix of another entry; plus a random sample of the rest
			for _, p := range r.prefixProbes() {
				r.Seq("Prefix", p, 0, 0)
			}
			for i := 0; i < bt.Prefix; i++ {
				if p := 1 + r.R.Intn(n); !uni[p-1].Twin {
					r.Seq("Prefix", p, 0, 0)
				}
			}
		}
	}
	if bt.RangeC > 0 && !d.HasRange() {
		for i := 0; i < bt.RangeC && !r.Dead; i++ {
			r.rangeC(1+r.R.Intn(n), 1+r.R.Intn(n))
		}
	}
	r.iterOnly = bt.IterOnly
	for i := 0; i < bt.IterChk && !r.Dead; i++ {
		r.randomIterCheck(sz)
	}
	if bt.Dump {
		r.DumpLine()
	}
}

func (r *Rec) prefixProbes() []int {
	if r.probes != nil {
		return r.probes
	}
	uni := r.D.Universe()
	r.probes = []int{}
	for i, e := range uni {
		interesting := e.Probe && !e.Twin
		if !interesting && !e.Twin {
			for j, f := range uni {
				if i != j && len(f.O) > len(e.O) && string(f.O[:len(e.O)]) == string(e.O) {
					interesting = true
					break
				}
			}
		}
		if interesting && len(r.probes) < 24 {
			r.probes = append(r.probes, i+1)
		}
	}
	return r.probes
}

func (r *Rec) randomIterCheck(sz int) {
	d := r.D
	n := len(d.Universe())
	names := []string{"All", "Backward", "TopK", "BottomK"}
	if d.HasRange() {
		names = append(names, "Range")
	} else {
		names = append(names, "RangeAny")
	}
	if d.HasPrefix() {
		names = append(names, "Prefix")
	}
	if len(r.iterOnly) > 0 {
		var keep []string
		for _, nm := range names {
			for _, o := range r.iterOnly {
				if nm == o {
					keep = append(keep, nm)
				}
			}
		}
		if len(keep) == 0 {
			return
		}
		names = keep
	}
	name := names[r.R.Intn(len(names))]
	a, b, k := 0, 0, 0
	switch name {
	case "TopK", "BottomK":
		k = r.R.Intn(sz + 2)
		if r.R.Intn(8) == 0 {
			k = -1 - r.R.Intn(2)
		}
	case "RangeAny":
		a, b = 1+r.R.Intn(n), 1+r.R.Intn(n)
	case "Range":
		a, b = 1+r.R.Intn(n), 1+r.R.Intn(n)
		if r.R.Intn(3) == 0 {
			b = n // upper bound at or above every stored key
		}
		if !d.RangeOK(a, b) || (d.Family() == "alpha" && len(d.Universe()[b-1].O) == 0) {
			if len(r.iterOnly) > 0 {
				return
			}
			name = "All"
		}
	case "Prefix":
		a = 1 + r.R.Intn(n)
		if d.Universe()[a-1].Twin {
			name = "All"
		}
	}
	// stop positions 0..len and complete passes, 2..4 iterations of the same value
	var stops []int
	for j := 0; j < 2+r.R.Intn(3); j++ {
		if r.R.Intn(3) == 0 {
			stops = append(stops, -1)
		} else {
			stops = append(stops, 1+r.R.Intn(sz+1))
		}
	}
	if r.R.Intn(3) == 0 {
		stops = append(stops, -2) // an inner pass while an outer one is suspended
	}
	stops = append(stops, -1)
	r.IterCheck(name, a, b, k, stops)
}
