package main

import (
	"fmt"
	"math"
	"math/rand"
	"strings"
)

func rk(s string) RawKey   { return RawKey{B: []byte(s)} }
func rp(s string) RawKey   { return RawKey{B: []byte(s), Probe: true} }
func rkb(b ...byte) RawKey { return RawKey{B: b} }
func rpb(b ...byte) RawKey { return RawKey{B: b, Probe: true} }

const p10 = "0123456789" // exactly the inline compressed-path limit

// Universe returns a named raw universe. size: "q" (quick) or "t" (thorough).
// Universes for byte-string trees never contain a pair k, k||0x00||s (that
// relation is the known finding D2 and lives only in "d2").
// aperiodic: n printable bytes without a period (no offset taken modulo a power of two meets the same byte pattern).
func aperiodic(n int) string {
	b := make([]byte, n)
	x := uint32(12345)
	for i := range b {
		x = x*1664525 + 1013904223
		b[i] = 'a' + byte((x>>24)%26)
	}
	return string(b)
}

func Universe(name string, size string, seed int64) []RawKey {
	thorough := size == "t"
	switch name {

	case "split":
		// short keys over three bytes incl. the signed/unsigned boundary, nested
		// prefixes, the empty key, a key that re-roots the tree
		u := []RawKey{
			rk(""), rk("a"), rk("ab"), rk("abc"), rk("abd"), rk("b"),
			rkb(0x7f), rkb(0x80, 'a'), rkb(0xff), rkb(0xff, 0xff),
			rp("aa"), rp("abcd"), rp("c"), rpb(0x80), rpb(0xfe),
		}
		if thorough {
			u = append(u, rk("abce"), rk("ba"), rkb('a', 0x80), rkb('a', 0xff, 'x'), rp("abd0"))
		}
		return u

	case "long":
		// shared prefixes of 9, 10, 11, 12 and 21 bytes; divergence before, at
		// and after byte 10; absent probes shorter than / diverging inside the
		// optimistic part
		P9, P11, P12, P21 := p10[:9], p10+"a", p10+"ab", p10+p10+"a"
		u := []RawKey{
			rk(P9 + "x"), rk(P9 + "y"),
			rk(p10 + "x"), rk(P11 + "x"), rk(P11 + "y"),
			rk(P12 + "x"), rk(P21 + "x"), rk(P21 + "y"),
			rk("zz"),
			rp(p10), rp(P11), rp(P9), rp("0123"), rp(p10 + "b"), rp(P21 + "z"),
			rp(p10 + p10 + "b"), rp(p10 + "zz"), rp("01234567zz"), rp(P21),
			// same length and same tail as a stored key, differing only inside the optimistic (non-inlined) part
			rp(p10 + "012345678Zax"), rp(p10 + "0Z23456789ay"),
			// prefixes reaching exactly 11 / 12 bytes into a long compressed path
			rp(p10 + "0"), rp(p10 + "01"),
		}
		// a second key below the 20-byte path: a long compressed path whose child is again an inner node
		u = append(u, rk(p10+p10+"bx"))
		if thorough {
			u = append(u, rk(P12+"y"), rk(p10+p10+"by"), rp(p10+p10), rp(p10+"01234"))
		}
		return u

	case "range":
		// bounds present/absent, equal, sharing long prefixes with each other and
		// with unrelated stored keys (the D4 shape), below min / above max
		u := []RawKey{
			rk("a"), rk("ayb"), rk("ayc"), rk("xy"), rk("xyzw1"), rk("xyzw2"), rk("xz"),
			rk(p10 + "ka"), rk(p10 + "kb"), rk(p10 + "m"),
			rp(""), rp("0"), rp("ay"), rp("b"), rp("xyzw"), rp("xyzw15"), rp("y"), rp(p10 + "k"), rp(p10 + "l"),
			rpb(0xff),
			// stored keys that sort after any "all 0xff" sentinel of four bytes
			rkb(0xff, 0xff, 0xff, 0xff, 0xfe),
		}
		if thorough {
			u = append(u, rk("ay"), rk("xyzw10"), rp("xyzw3"), rp(p10), rkb(0xff, 0xff, 0xff, 0xff, 0xff, 0xff))
		}
		return u

	case "prefix":
		// probes: empty, a key, longer than every key, ending inside / at / beyond a
		// compressed path, diverging, matching a sibling's continuation (D7 shape)
		u := []RawKey{
			rk(p10 + "axy1"), rk(p10 + "axy2"), rk(p10 + "bxyz1"), rk(p10 + "bxyz2"),
			rk("ab"), rk("abc1"), rk("abc2"), rk("abd"), rk("b"),
			rp(""), rp("a"), rp("abc"), rp("abc12"), rp("abx"), rp(p10), rp(p10 + "a"), rp(p10 + "bxyz"),
			rp(p10 + "bxy"), rp(p10 + "axyz"), rp(p10[:5]), rp("0123x"), rp(p10 + "c"), rp("c"),
		}
		if thorough {
			u = append(u, rk(p10+"bxyz10"), rk("abc"), rp(p10+"bx"), rp("abc1"))
		}
		return u

	case "fan1":
		// 256 one-byte keys: every fan-out 1..256, every lane, 0x00 and 0xff branches
		var u []RawKey
		for b := 0; b < 256; b++ {
			u = append(u, rkb(byte(b)))
		}
		return u

	case "fan1x":
		// one-byte continuations below a common 2-byte path (alpha: no 0x00 byte
		// before the terminator problem: the fan byte is the last one)
		var u []RawKey
		for b := 1; b < 256; b++ {
			u = append(u, rkb('k', 'k', byte(b)))
		}
		// "kk" itself is stored: the fan node then has a child under the terminator byte 0x00
		u = append(u, rk("kk"), rp("k"), rp("kl"), rp("kk\x01\x01"))
		return u

	case "fanw":
		// a wide node (60 children, 256-slot class) that is NOT the last subtree: later siblings follow it
		var u []RawKey
		for b := 0x30; b < 0x30+60; b++ {
			u = append(u, rkb('m', byte(b)))
		}
		u = append(u, rk("a"), rk("x1"), rk("x2"), rk("z"), rp("m"), rp("x"), rp("n"))
		return u

	case "vlong":
		// keys of 32..130 bytes; shared prefixes far beyond the inline limit (91+ bytes)
		L := strings.Repeat("abcdefghij", 10) // 100 bytes
		u := []RawKey{
			rk(L + "1"), rk(L + "2"), rk(L + "21"), rk(L[:95] + "X" + "1"), rk(L[:40] + "q"), rk(L[:40] + "r"),
			rk(L[:33]), rk(L[:32] + "z"), rk("short"), rk(L + L[:20] + "a"), rk(L + L[:20] + "b"),
			rp(L), rp(L[:50]), rp(L[:95]), rp(L[:95] + "Y1"), rp(L + "3"), rp(L[:31]), rp(L + L[:20]),
		}
		return u

	case "lfan":
		// six continuations below a 12-byte shared path (longer than the inline limit): a 16-slot node under an
		// optimistic path, shrinking back to 4 slots
		var u []RawKey
		for _, c := range []byte{'a', 'b', 'c', 'd', 'e', 'f'} {
			u = append(u, rkb(append([]byte(p10+"xy"), c)...))
		}
		u = append(u, rp(p10+"xy"), rp(p10+"xZa"), rp(p10+"xyg"), rp(p10+"x"), rp(p10), rp(p10+"y"))
		return u

	case "huge":
		// keys of 255, 256, 257 and 300 bytes below shared paths of 254 and 256 bytes: lengths and depths around one byte's
		// range. The bytes have no period (an offset taken modulo 256 must meet a different byte); two keys put an inner node
		// WITH a compressed path at offset 257.
		P := aperiodic(300)
		return []RawKey{
			rk(P[:254] + "a"), rk(P[:254] + "b"), rk(P[:255] + "x"), rk(P[:256] + "y"), rk(P[:256] + "z"), rk(P[:299] + "q"), rk(P),
			rk(P[:258] + "QQQ1"), rk(P[:258] + "QQQ2"),
			rp(P[:254]), rp(P[:255]), rp(P[:256]), rp(P[:100]), rp(P[:254] + "c"), rp(P[:256] + "w"), rp(P + "0"),
			rp(P[:258] + "QQQ0"), rp(P[:258] + "QQQ9"), rp(P[:258] + "Q"),
		}

	case "huge2":
		// every key below ONE path of 258 bytes (258 mod 256 = 2): the root's own compressed path is longer than a byte can count
		Q := aperiodic(258)
		return []RawKey{
			rk(Q + "a1"), rk(Q + "a2"), rk(Q + "b"), rk(Q + "cQQQ1"), rk(Q + "cQQQ2"), rk(Q),
			rp(Q + "a"), rp(Q + "c"), rp(Q[:100]), rp(Q[:255] + "~"), rp(Q + "cQQQ0"), rp(Q + "d"), rp(""),
		}

	case "giant":
		// keys of 65535, 65536 and 65537 bytes below shared paths of 65534 and 65536 bytes (two bytes' range)
		Q := strings.Repeat("0123456789abcdef", 4200)[:66000]
		return []RawKey{
			rk(Q[:65534] + "a"), rk(Q[:65534] + "b"), rk(Q[:65535] + "c"), rk(Q[:65536] + "d"), rk(Q[:65536] + "e"), rk("short"),
			rp(Q[:65535]), rp(Q[:65536]), rp(Q[:300]), rp(Q[:65534] + "c"),
		}

	case "lfan20":
		// twenty continuations below a 12-byte shared path: the branch point below an optimistic (longer than inline)
		// path goes 4 -> 16 -> 48 slots and back, so every resize has to carry the true path length along
		var u []RawKey
		for i := 0; i < 20; i++ {
			u = append(u, rkb(append([]byte(p10+"xy"), byte('A'+i*3))...))
		}
		u = append(u, rp(p10+"xy"), rp(p10+"xZa"), rp(p10+"xy~"), rp(p10+"x"), rp(p10), rp(p10+"xyA1"))
		return u

	case "fan64":
		// 64 one-byte keys: a fill/drain cycle crosses 4 -> 16 -> 48 -> 256 (at 49) and back (37, 12, 3) in ~150 operations
		var u []RawKey
		for i := 0; i < 64; i++ {
			u = append(u, rkb(byte(i*4+i%4)))
		}
		u[63] = rkb(0xff)
		return u

	case "fan16":
		// exactly 16 one-byte keys: the fan node becomes a completely FULL 16-slot node and never leaves that class upward
		var u []RawKey
		for _, b := range []byte{0x00, 0x01, 0x10, 0x20, 0x30, 0x40, 0x50, 0x7f, 0x80, 0x90, 0xa0, 0xb0, 0xc0, 0xe0, 0xfe, 0xff} {
			u = append(u, rkb(b))
		}
		return u

	case "fan18":
		// 18 one-byte keys: short fill/drain cycles through the 4- and 16-slot classes (and just into the 48-slot one)
		var u []RawKey
		for _, b := range []byte{0x00, 0x01, 0x10, 0x20, 0x30, 0x40, 0x50, 0x60, 0x7f, 0x80, 0x90, 0xa0, 0xb0, 0xc0, 0xd0, 0xe0, 0xfe, 0xff} {
			u = append(u, rkb(b))
		}
		return u

	case "fanb":
		// one-byte keys around every byte boundary plus filler: at most 40 children, so the fan node
		// lives in the 4/16/48 classes with 0x00, 0x7f, 0x80, 0xff registered most of the time
		var u []RawKey
		for _, b := range []byte{0x00, 0x01, 0x02, 0x7e, 0x7f, 0x80, 0x81, 0xfd, 0xfe, 0xff} {
			u = append(u, rkb(b))
		}
		for b := 0x20; b < 0x20+30; b++ {
			u = append(u, rkb(byte(b)))
		}
		return u

	case "fan2":
		// two levels: 4 first bytes x 20 second bytes, straddling 0x7f/0x80
		var u []RawKey
		for _, a := range []byte{0x01, 0x7f, 0x80, 0xff} {
			for j := 0; j < 20; j++ {
				u = append(u, rkb(a, byte(0x76+j), 'z'))
			}
		}
		u = append(u, rpb(0x7f), rpb(0x80, 0x80), rpb(0x80, 0x76))
		return u

	case "fixed":
		// fixed-width patterns placing splits at every depth of 1..8-byte keys,
		// with numeric specials; mapped by the numeric kinds to their own width
		u := []RawKey{
			rkb(0, 0, 0, 0, 0, 0, 0, 0), rkb(0, 0, 0, 0, 0, 0, 0, 1), rkb(0, 0, 0, 0, 0, 0, 1, 0),
			rkb(0, 0, 0, 1, 0, 0, 0, 0), rkb(0, 1, 0, 0, 0, 0, 0, 0), rkb(1, 0, 0, 0, 0, 0, 0, 0),
			rkb(0x7f, 0xff, 0xff, 0xff, 0xff, 0xff, 0xff, 0xff), rkb(0x80, 0, 0, 0, 0, 0, 0, 0),
			rkb(0x80, 0, 0, 0, 0, 0, 0, 1), rkb(0xff, 0xff, 0xff, 0xff, 0xff, 0xff, 0xff, 0xff),
			rkb(0xff, 0xff, 0xff, 0xff, 0xff, 0xff, 0xff, 0xfe), rkb(0x7f, 0xf0, 0, 0, 0, 0, 0, 0),
			rkb(0xff, 0xf0, 0, 0, 0, 0, 0, 0), rkb(0x7f, 0xf8, 0, 0, 0, 0, 0, 1),
			rkb(0x7f, 0x80, 0, 0, 0, 0, 0, 0), rkb(0xff, 0x80, 0, 0, 0, 0, 0, 0), rkb(0x7f, 0xc0, 0, 0, 0, 0, 0, 0),
			rkb(0x3f, 0xf0, 0, 0, 0, 0, 0, 0), rkb(0xbf, 0xf0, 0, 0, 0, 0, 0, 0), rkb(0x3f, 0x80, 0, 0, 0, 0, 0, 0), rkb(0xbf, 0x80, 0, 0, 0, 0, 0, 0),
			rpb(0, 0, 0, 0, 0, 0, 0, 2), rpb(0x40, 0, 0, 0, 0, 0, 0, 0), rpb(0xc0, 0, 0, 0, 0, 0, 0, 0),
			rpb(0x80, 0, 0, 1, 0, 0, 0, 0), rpb(0x7f, 0xff, 0, 0, 0, 0, 0, 0),
		}
		return u

	case "text":
		// collation: scripts, case, accents, digits, multi-byte, long shared prefixes
		ws := []string{
			"a", "A", "á", "à", "ä", "b", "B", "ab", "Ab", "aB", "abc", "abd",
			"résumé", "resume", "Resume", "role", "rôle", "Z", "z", "zebra",
			"10", "9", "2", "item2", "item10", "item9",
			"ñ", "n", "o", "ö", "ø", "å", "æ",
			"привет", "Привет", "пока", "中文", "中国", "日本",
			"internationalization", "internationalisation", "internationalizations",
			"chz", "cz", "llama", "lz",
			"abcdefghij1", "abcdefghij2", "abcdefghijk", "abcdefghijK",
			"caf\u00e9", "cooperate",
		}
		var u []RawKey
		for _, w := range ws {
			u = append(u, rk(w))
		}
		for _, w := range []string{"", "c", "int", "item", "internationali", "r", "при", "中", "zz", "á1",
			"abcdefgzij1", "Abcdefghijk", "abcdefghij3", "intermationalization",
			// different strings that collate EQUAL to a stored one (decomposed accent, soft hyphen): absent keys
			"cafe\u0301", "co\u00adoperate"} {
			u = append(u, rp(w))
		}
		return u

	case "textrep":
		// collation: pairs of strings sharing runs of one letter (sort-key paths of every length from 13 to 30+ bytes) and,
		// as absent keys, shorter runs of that letter: sort keys that agree with the inline part of a long path and END
		// at, before or after the depth the optimistic skip arrives at
		var u []RawKey
		for n := 6; n <= 15; n++ {
			run := strings.Repeat("a", n)
			u = append(u, rk(run+"b"), rk(run+"c"))
		}
		// case variants differ only at the tertiary level: their sort keys share EVERYTHING up to the last weights (paths
		// longer than the whole sort key of a shorter run)
		for _, n := range []int{5, 7, 9, 12} {
			run := strings.Repeat("a", n)
			u = append(u, rk(run+"a"), rk(run+"A"))
		}
		for n := 1; n <= 16; n++ {
			u = append(u, rp(strings.Repeat("a", n)))
		}
		u = append(u, rp("b"), rp(""))
		return u

	case "textcase":
		// collation, closed: two pairs of case variants (sort keys sharing everything up to the last tertiary weights: root
		// paths of 30+ bytes) and every shorter run of the letter as an absent key
		u := []RawKey{rk("aaaaaa"), rk("aaaaaA"), rk("aaaaaaaaa"), rk("aaaaaaaaA"), rk("b")}
		for n := 1; n <= 8; n++ {
			if n != 6 {
				u = append(u, rp(strings.Repeat("a", n)))
			}
		}
		u = append(u, rp("aaaaaaaaaa"), rp(""), rp("A"))
		return u

	case "textskip":
		// collation, closed: two pairs whose shared sort-key paths are EXACTLY as long as the whole sort keys of the absent
		// runs aaa (19 bytes) and aaaaa (29 bytes): the optimistic skip arrives precisely at the end of the probed key
		u := []RawKey{rk(strings.Repeat("a", 9) + "b"), rk(strings.Repeat("a", 9) + "c"), rk(strings.Repeat("a", 14) + "b"), rk(strings.Repeat("a", 14) + "c")}
		for n := 1; n <= 8; n++ {
			u = append(u, rp(strings.Repeat("a", n)))
		}
		u = append(u, rp(""), rp("b"))
		return u

	case "textnfd":
		// collation: stored keys that are NOT in composed normal form (combining accents, conjoining jamo, the Angstrom and
		// Ohm signs); their composed spellings are absent keys. What the tree hands back must be the bytes that were inserted.
		var u []RawKey
		for _, w := range []string{"e\u0301toile", "A\u030angstrom", "\u1112\u1161\u11ab", "\u212bngel", "\u2126mega", "re\u0301sume\u0301",
			"plain", "zebra", "a", "o\u0308l", "n\u0303u"} {
			u = append(u, rk(w))
		}
		for _, w := range []string{"\u00e9toile", "\u00c5ngstrom", "\ud55c", "\u00c5ngel", "\u03a9mega", "r\u00e9sum\u00e9", "\u00f6l", "\u00f1u", "b", ""} {
			u = append(u, rp(w))
		}
		return u

	case "greek16":
		// 16 Greek letters: one sort-key byte position with exactly 16 children in a collation tree
		var u []RawKey
		for c := 0x3b1; c < 0x3b1+17; c++ {
			if c == 0x3c2 { // final sigma collates with sigma
				continue
			}
			u = append(u, rk(string(rune(c))))
		}
		u = append(u, rp("a"), rp(string(rune(0x3c9))))
		return u

	case "textlong":
		// collation: strings of 1000+ characters (sort keys beyond the collator buffer's inline array) among short ones
		A := strings.Repeat("a", 1500)
		var u []RawKey
		for _, w := range []string{A, A + "b", A[:1200] + "z", "ab", "b", "a", "zebra", strings.Repeat("xy", 700)} {
			u = append(u, rk(w))
		}
		for _, w := range []string{A + "c", A[:1499], "c", ""} {
			u = append(u, rp(w))
		}
		return u

	case "han":
		// 64 consecutive Han characters (one fan node passing through every size class in the sort-key space) plus a few others
		var u []RawKey
		n := 64 // more than 48 siblings: the hand-written copy reaches its 256-slot class
		for c := 0x4e2d; c < 0x4e2d+n; c++ {
			u = append(u, rk(string(rune(c))))
		}
		for _, w := range []string{"a", "b", "日本", "中文"} {
			u = append(u, rk(w))
		}
		u = append(u, rp("中"), rp("c"), rp(string(rune(0x4e2d+41))))
		return u

	case "textq":
		// small collation universe for closed exploration
		// five different leading primary weights: the root passes through a full 4-slot node and the 16-slot class
		ws := []string{"a", "A", "ab", "Ab", "rôle", "item2", "caf\u00e9", "z", "п"}
		if thorough {
			ws = append(ws, "b", "role", "中", "á")
		}
		var u []RawKey
		for _, w := range ws {
			u = append(u, rk(w))
		}
		if thorough {
			ws = append(ws, "item10")
		}
		// "cafe\u0301" collates EQUAL to the stored "caf\u00e9" but is a different string: an absent key
		for _, w := range []string{"", "ro", "item", "c", "cafe\u0301"} {
			u = append(u, rp(w))
		}
		return u

	case "d2":
		// the known finding: byte-string keys k and k||0x00||s
		return []RawKey{rk("a"), rkb('a', 0, 'b'), rk("b"), rkb('a', 0), rp("ab")}

	case "random":
		return randomUniverse(seed, thorough)
	}
	panic("unknown universe " + name)
}

// randomUniverse: byte strings over a tiny alphabet with planted long prefixes.
func randomUniverse(seed int64, thorough bool) []RawKey {
	r := rand.New(rand.NewSource(seed))
	n := 14
	if thorough {
		n = 20
	}
	alpha := []byte{'a', 'b', 0x7f, 0x80, 0xff, 'c'}
	stems := []string{"", "", "a", p10, p10 + "ab", p10 + p10 + "q", "ab"}
	seen := map[string]bool{}
	var u []RawKey
	for len(u) < n {
		s := []byte(stems[r.Intn(len(stems))])
		l := 1 + r.Intn(3)
		for i := 0; i < l; i++ {
			s = append(s, alpha[r.Intn(len(alpha))])
		}
		if seen[string(s)] {
			continue
		}
		seen[string(s)] = true
		u = append(u, RawKey{B: s, Probe: r.Intn(4) == 0})
	}
	return u
}

// fixedUniverse: random fixed-width patterns clustered so that splits occur at
// many depths; used by the random drivers of the numeric kinds.
func fixedUniverse(seed int64, w, n int) []RawKey {
	r := rand.New(rand.NewSource(seed))
	specials := []uint64{0, 1, 2, 0x7f, 0x80, 0xff, 0x100, 0x7fff, 0x8000, 0xffff, 0x7fffffff, 0x80000000, 0xffffffff,
		0x7fffffffffffffff, 0x8000000000000000, 0xffffffffffffffff, 0xfffffffffffffffe,
		math.Float64bits(1), math.Float64bits(-1), math.Float64bits(math.Inf(1)), math.Float64bits(math.Inf(-1)),
		math.Float64bits(math.NaN()), math.Float64bits(math.SmallestNonzeroFloat64), math.Float64bits(math.MaxFloat64),
		uint64(math.Float32bits(1)) << 32, uint64(math.Float32bits(-1)) << 32, uint64(math.Float32bits(float32(math.Inf(1)))) << 32,
		uint64(math.Float32bits(float32(math.Inf(-1)))) << 32, uint64(math.Float32bits(float32(math.NaN()))) << 32,
		0x8000000000000000 >> 0, 0x0000000080000000, 0x00000000_00000001 << 31,
	}
	var u []RawKey
	seen := map[uint64]bool{}
	for len(u) < n {
		var p uint64
		switch r.Intn(4) {
		case 0:
			p = specials[r.Intn(len(specials))]
			if r.Intn(2) == 0 {
				p += uint64(r.Intn(5)) - 2
			}
		case 1:
			p = uint64(r.Intn(4)) << uint(8*r.Intn(8))
		case 2:
			p = r.Uint64()
		default:
			p = specials[r.Intn(len(specials))] ^ (uint64(r.Intn(256)) << uint(8*r.Intn(8)))
		}
		// left-align into w bytes so that narrow kinds see the interesting part
		b := make([]byte, 8)
		for i := 0; i < 8; i++ {
			b[i] = byte(p >> uint(56-8*i))
		}
		if w < 8 && r.Intn(2) == 0 {
			copy(b, b[8-w:])
		}
		k := pattern(b, w)
		if seen[k] {
			if w == 1 && len(seen) >= 256 {
				break
			}
			continue
		}
		seen[k] = true
		u = append(u, RawKey{B: b, Probe: r.Intn(5) == 0})
	}
	return u
}

// tupleUniverse: raw bytes that rawToTuple cuts into fields; values drawn from
// small pools so that leading fields collide and tuples share prefixes.
func tupleUniverse(s Schema, seed int64, n int) []RawKey {
	r := rand.New(rand.NewSource(seed))
	pool := func(w int) []byte {
		choices := [][]byte{
			{0, 0, 0, 0, 0, 0, 0, 0}, {0, 0, 0, 0, 0, 0, 0, 1}, {0x7f, 0xff, 0xff, 0xff, 0xff, 0xff, 0xff, 0xff},
			{0x80, 0, 0, 0, 0, 0, 0, 0}, {0xff, 0xff, 0xff, 0xff, 0xff, 0xff, 0xff, 0xff}, {0x3f, 0xf0, 0, 0, 0, 0, 0, 0},
			{0xbf, 0xf0, 0, 0, 0, 0, 0, 0}, {0x3f, 0x80, 0, 0, 0, 0, 0, 0}, {0x7f, 0xf0, 0, 0, 0, 0, 0, 0}, {0x7f, 0x80, 0, 0, 0, 0, 0, 0},
			{0, 1, 0, 0, 0, 0, 0, 0}, {1, 0, 0, 0, 0, 0, 0, 0},
		}
		c := choices[r.Intn(len(choices))]
		if r.Intn(4) == 0 {
			c = []byte{byte(r.Intn(256)), byte(r.Intn(256)), byte(r.Intn(256)), byte(r.Intn(256)), byte(r.Intn(256)), byte(r.Intn(256)), byte(r.Intn(256)), byte(r.Intn(256))}
		}
		out := make([]byte, w)
		if r.Intn(2) == 0 {
			copy(out, c[:w]) // leading bytes of the pattern
		} else {
			copy(out, c[8-w:]) // trailing bytes
		}
		return out
	}
	strs := []string{"", "a", "ab", "abc", "b", p10 + "x", p10 + "y", "\x7f", "\x80", "\xff"}
	var u []RawKey
	for i := 0; i < n; i++ {
		var b []byte
		for _, f := range s.Fields {
			if f == fStr {
				b = append(b, strs[r.Intn(len(strs))]...)
			} else {
				b = append(b, pool(fieldWidth[f])...)
			}
		}
		u = append(u, RawKey{B: b, Probe: r.Intn(5) == 0})
	}
	return u
}

func randomSchema(r *rand.Rand) Schema {
	n := 1 + r.Intn(4)
	var s Schema
	for i := 0; i < n; i++ {
		if i == n-1 && r.Intn(3) == 0 {
			s.Fields = append(s.Fields, fStr)
		} else {
			s.Fields = append(s.Fields, r.Intn(fStr))
		}
	}
	return s
}

func describeUniverse(d TreeDriver) string {
	var sb strings.Builder
	for i, e := range d.Universe() {
		fmt.Fprintf(&sb, "%d:%q/%x probe=%v\n", i+1, e.O, e.T, e.Probe)
	}
	return sb.String()
}
