"""Shared machinery of /verif/bin/check: environment, builds, TLC runners,
violation confirmation, known findings, evidence."""
import json, os, re, shutil, subprocess, sys, time, hashlib, concurrent.futures as cf

VERIF = os.path.dirname(os.path.dirname(os.path.abspath(__file__)))
REPO = os.environ.get("VERIF_REPO", "/repo")
SPEC = os.path.join(VERIF, "spec")
HARNESS = os.path.join(VERIF, "harness")
WORKROOT = os.path.join(VERIF, ".work")
TLAJAR = "/opt/veriftools/tla/tla2tools.jar"
CMJAR = "/opt/veriftools/tla/CommunityModules-deps.jar"
NCPU = os.cpu_count() or 4
# self-test against a changed copy of the repository (VERIF_REPO): keep its outputs away from the real ones
SELFTEST = REPO != "/repo"
EVIDENCE_DIR = os.path.join(WORKROOT, "selftest-evidence") if SELFTEST else os.path.join(VERIF, "evidence")
REPLAY_DIR = os.path.join(WORKROOT, "selftest-replays") if SELFTEST else os.path.join(VERIF, "replays")


class Infra(Exception):
    """Infrastructure failure: never a violation (exit 2)."""


def log(*a):
    print(*a, file=sys.stderr, flush=True)


def go_env():
    env = dict(os.environ)
    env["GOFLAGS"] = "-mod=mod"
    env["GOPROXY"] = "off"
    env.pop("GOSUMDB", None)  # GOSUMDB=off breaks the offline toolchain switch
    env.setdefault("GOTOOLCHAIN", "auto")
    if env.get("GOTOOLCHAIN") == "local":
        env["GOTOOLCHAIN"] = "auto"
    env["CGO_ENABLED"] = env.get("CGO_ENABLED", "1")
    return env


class Work:
    """Scratch directory of one check run, removed at the end."""

    def __init__(self, name):
        self.dir = os.path.join(WORKROOT, "%s-%d" % (name, os.getpid()))
        shutil.rmtree(self.dir, ignore_errors=True)
        os.makedirs(self.dir)
        self.specdir = os.path.join(self.dir, "spec")
        shutil.copytree(SPEC, self.specdir)
        self.n = 0

    def path(self, *p):
        return os.path.join(self.dir, *p)

    def fresh(self, stem):
        self.n += 1
        return self.path("%s-%d" % (stem, self.n))

    def cleanup(self):
        if os.environ.get("VERIF_KEEP"):
            log("keeping", self.dir)
            return
        shutil.rmtree(self.dir, ignore_errors=True)


_built = {}
_build_lock = __import__("threading").Lock()


def build_harness(work, variant="plain"):
    """Build artdrive from /repo's current working tree with hooks enabled."""
    with _build_lock:
        return _build_harness(work, variant)


def _build_harness(work, variant):
    if variant in _built:
        return _built[variant]
    out = work.path("artdrive-" + variant)
    env = go_env()
    # the harness module always builds against REPO through its replace directive
    hdir = HARNESS
    if REPO != "/repo":
        hdir = work.path("harness-src")
        if not os.path.exists(hdir):
            shutil.copytree(HARNESS, hdir)
            gm = open(os.path.join(hdir, "go.mod")).read().replace("=> /repo", "=> " + REPO)
            open(os.path.join(hdir, "go.mod"), "w").write(gm)
    shutil.copy(os.path.join(REPO, "go.sum"), os.path.join(hdir, "go.sum"))
    cmd = ["go", "build", "-tags", "verif", "-o", out]
    if variant == "race":
        cmd.insert(2, "-race")
    elif variant == "checkptr":
        cmd[2:2] = ["-gcflags=all=-d=checkptr"]
    elif variant == "386":
        env["GOARCH"] = "386"
        env["CGO_ENABLED"] = "0"
    cmd.append(".")
    t0 = time.time()
    p = subprocess.run(cmd, cwd=hdir, env=env, capture_output=True, text=True)
    if p.returncode != 0:
        raise Infra("harness build (%s) failed:\n%s" % (variant, p.stderr[-4000:]))
    log("built artdrive[%s] in %.1fs" % (variant, time.time() - t0))
    _built[variant] = out
    return out


def run_drive(binary, args, timeout=3600, env=None, allow_fail=False):
    p = subprocess.run([binary] + args, capture_output=True, text=True, timeout=timeout, env=env)
    if p.returncode != 0 and not allow_fail:
        raise Infra("artdrive %s failed (%d): %s" % (" ".join(args[:6]), p.returncode, p.stderr[-2000:]))
    return p


def java_cmd(xmx="3g", gc="-XX:+UseSerialGC", short=True):
    """short=True: flags for the many short single-threaded trace-validation JVMs that run side by side
    (measured here: C2 compiler threads and a large young generation make 16 parallel JVMs 5x slower)."""
    cmd = ["java", gc, "-Xmx" + xmx, "-Xss64m"]
    if short:
        cmd += ["-XX:TieredStopAtLevel=1", "-Xmn48m", "-Xms256m"]
    return cmd + ["-cp", TLAJAR + ":" + CMJAR, "tlc2.TLC"]


def write_cfg(path, spec, invariants, extra=""):
    with open(path, "w") as f:
        f.write("SPECIFICATION %s\n" % spec)
        if invariants:
            f.write("INVARIANTS\n")
            for i in invariants:
                f.write("  %s\n" % i)
        f.write(extra)


class TraceResult:
    def __init__(self):
        self.ok = False
        self.invariant = None
        self.line = None  # 1-based line of the trace that violates
        self.states = 0
        self.error = None
        self.file = None


_state_re = re.compile(r"^State (\d+):")
_inv_re = re.compile(r"Invariant (\w+) is violated")
_gen_re = re.compile(r"(\d+) states generated, (\d+) distinct states found")


def validate_trace(work, trace_file, invariants, module="TraceArt", timeout=3600, spec="TraceSpec"):
    """Run TLC on one trace file. Deterministic trace spec: one state per line."""
    res = TraceResult()
    res.file = trace_file
    tag = hashlib.md5((trace_file + spec + ",".join(invariants)).encode()).hexdigest()[:10]
    cfg = os.path.join(work.specdir, "%s_%s.cfg" % (module, tag))
    write_cfg(cfg, spec, invariants,
              "POSTCONDITION TraceComplete\nCHECK_DEADLOCK FALSE\nALIAS TraceAlias\n")
    meta = work.fresh("meta")
    env = dict(os.environ)
    env["TRACE"] = trace_file
    cmd = java_cmd() + ["-workers", "1", "-metadir", meta, "-noGenerateSpecTE", "-nowarning",
                        "-config", os.path.basename(cfg), module + ".tla"]
    try:
        p = subprocess.run(cmd, cwd=work.specdir, env=env, capture_output=True, text=True, timeout=timeout)
    except subprocess.TimeoutExpired:
        res.error = "TLC timeout"
        return res
    finally:
        shutil.rmtree(meta, ignore_errors=True)
    out = p.stdout
    m = _gen_re.search(out)
    if m:
        res.states = int(m.group(2))
    mi = _inv_re.search(out)
    if mi:
        res.invariant = mi.group(1)
        last = None
        for ln in out.splitlines():
            ms = _state_re.match(ln)
            if ms:
                last = int(ms.group(1))
        if last is None:
            res.error = "violation without a state trace"
        else:
            res.line = last - 1
        return res
    if "Model checking completed. No error has been found." in out:
        res.ok = True
        return res
    # anything else: evaluation error, unconsumed lines (TraceComplete), crash
    tail = "\n".join([l for l in out.splitlines() if not l.startswith(("Semantic", "Linting", "Parsing"))][-25:])
    res.error = "TLC did not accept or reject the trace cleanly:\n" + tail + p.stderr[-500:]
    return res


def validate_many(work, files, invariants, module="TraceArt", jobs=None, spec="TraceSpec"):
    jobs = jobs or max(1, min(NCPU, len(files)))
    with cf.ThreadPoolExecutor(max_workers=jobs) as ex:
        return list(ex.map(lambda f: validate_trace(work, f, invariants, module, spec=spec), files))


def measure_drift(work, files, limit=12):
    """Run the L1 model next to recorded traces (TraceDrift) and compare its tree with the real dumps.
    Informative: returns a summary for the evidence, never raises a verdict."""
    pick = [f for f in files if os.path.exists(f)][:limit]
    if not pick:
        return {"files": 0}
    res = validate_many(work, pick, ["DriftFree", "RangeCFree"], module="TraceDrift", spec="DriftSpec")
    out = {"files": len(pick), "lines": sum(r.states for r in res), "drift_free": all(r.ok for r in res)}
    for r in res:
        if r.invariant:
            out["first_drift"] = "%s line %s" % (os.path.basename(r.file), r.line)
            break
        if r.error:
            out["error"] = r.error[-300:]
            break
    return out


def split_trace(path, max_bytes):
    """Split a single-tree trace at segment boundaries ('clear' lines) into parts of
    about max_bytes; every part starts with the 'new' line. Returns the part files."""
    if os.path.getsize(path) <= max_bytes:
        return [path]
    out = []
    part = None
    size = 0
    n = 0
    with open(path) as f:
        head = f.readline()
        assert head.startswith('{"op":"new"'), "trace must start with a new line"
        for ln in f:
            if part is None or (size >= max_bytes and ln.startswith('{"op":"clear"')):
                if part:
                    part.close()
                fn = "%s.p%d" % (path, n)
                n += 1
                out.append(fn)
                part = open(fn, "w")
                part.write(head)
                size = 0
                if ln.startswith('{"op":"clear"'):
                    continue  # a part starts with 'new' (fresh tree): the clear line is redundant
            part.write(ln)
            size += len(ln)
    if part:
        part.close()
    os.remove(path)
    return out


def extract_segment(trace_file, line):
    """Lines of the history that leads to (and includes) the offending line."""
    with open(trace_file) as f:
        lines = f.readlines()[:line]
    # multi-tree traces: everything since the last reset
    start = 0
    news = {}
    seg_start = {}
    multi = False
    for i, ln in enumerate(lines):
        if ln.startswith('{"op":"reset"'):
            start = i
            news, seg_start = {}, {}
        elif ln.startswith('{"op":"new"'):
            t = json.loads(ln)["t"]
            news[t] = i
            seg_start[t] = i
            if len(news) > 1:
                multi = True
        elif ln.startswith('{"op":"clear"'):
            seg_start[json.loads(ln)["t"]] = i
    if multi or not news:
        return lines[start:]
    t = list(news)[0]
    if seg_start[t] == news[t]:
        return lines[news[t]:]
    return [lines[news[t]]] + lines[seg_start[t] + 1:]


# ---- known findings ------------------------------------------------------------

def load_known():
    p = os.path.join(VERIF, "known_findings.json")
    if not os.path.exists(p):
        return []
    return json.load(open(p)).get("findings", [])


def d2_signature(segment_lines):
    """Known finding D2: a byte-string tree into which both k and k||0x00||s were inserted."""
    uni = {}
    inserted = {}
    fam = {}
    for ln in segment_lines:
        e = json.loads(ln)
        if e["op"] == "new":
            uni[e["t"]] = [bytes(x["o"]) for x in e["u"]]
            fam[e["t"]] = e["kind"]
            inserted[e["t"]] = set()
        elif e["op"] == "clear":
            inserted[e["t"]] = set()
        elif e["op"] == "Insert":
            inserted[e["t"]].add(e["k"])
    last = json.loads(segment_lines[-1])
    t = last.get("t")
    if t is None or fam.get(t) != "alpha":
        return False
    keys = [uni[t][k - 1] for k in inserted[t]]
    for a in keys:
        for b in keys:
            if len(b) > len(a) and b.startswith(a) and b[len(a)] == 0:
                return True
    return False


def split_d2(trace_file):
    """Separate what lies inside the known finding D2 from the rest of a byte-string trace.
    Returns (clean_file, tainted_file or None): clean holds every segment cut just before the
    Insert that completes a pair k, k||0x00||s; tainted holds the complete segments that do so."""
    with open(trace_file) as f:
        lines = f.readlines()
    head = json.loads(lines[0])
    if head.get("op") != "new" or head.get("kind") != "alpha":
        return trace_file, None
    okeys = [bytes(x["o"]) for x in head["u"]]

    def pair(a, b):
        return len(b) > len(a) and b.startswith(a) and b[len(a)] == 0

    clean, tainted = [lines[0]], [lines[0]]
    seg, ins, cut = [], set(), None
    any_taint = False

    def flush():
        nonlocal seg, ins, cut, any_taint
        if cut is None:
            clean.extend(seg)
        else:
            clean.extend(seg[:cut])
            tainted.extend(seg)
            any_taint = True
        seg, ins, cut = [], set(), None

    for ln in lines[1:]:
        if ln.startswith('{"op":"clear"'):
            flush()
            seg.append(ln)
            continue
        if cut is None and ln.startswith('{"op":"Insert"'):
            k = json.loads(ln)["k"]
            kb = okeys[k - 1]
            if any(pair(okeys[j - 1], kb) or pair(kb, okeys[j - 1]) for j in ins):
                cut = len(seg)
            ins.add(k)
        seg.append(ln)
    flush()
    cf_, tf_ = trace_file + ".clean", trace_file + ".d2"
    with open(cf_, "w") as f:
        f.writelines(clean)
    if not any_taint:
        return cf_, None
    with open(tf_, "w") as f:
        f.writelines(tainted)
    return cf_, tf_


def match_known(prop, segment_lines):
    for k in load_known():
        if k.get("status") != "open" or prop not in k.get("properties", []):
            continue
        if k.get("signature") == "alpha-embedded-nul-prefix-pair" and d2_signature(segment_lines):
            return k
    return None


# ---- evidence --------------------------------------------------------------------

def write_evidence(prop, tier, seed, level, coverage, wall, violations, assumptions):
    os.makedirs(EVIDENCE_DIR, exist_ok=True)
    ev = {
        "property_id": prop, "tier": tier, "seed": int(seed), "level": level,
        "coverage": coverage, "assumptions": assumptions, "wall_s": round(wall, 2),
        "violations": violations,
    }
    tmp = os.path.join(EVIDENCE_DIR, prop + ".json.tmp")
    with open(tmp, "w") as f:
        json.dump(ev, f, indent=1)
    os.replace(tmp, os.path.join(EVIDENCE_DIR, prop + ".json"))
