"""Checks whose executions come from dedicated harness commands (interleaved trees,
caller arenas, goroutines, memory, GC): run jobs, validate their traces with TLC, confirm
a violation by running the same job again in a fresh process."""
import json, os, re, shutil, subprocess, time, hashlib, glob
import concurrent.futures as cf
from vcommon import *
from vmodel import *
import vprops
from vprops import save_replay, describe_line, ASSUME_BASE, split_at


def simple_model(work, module, cfg_text, workers=8, simulate=None, seed=1, out=None, timeout=1800):
    """Run TLC on a module of spec/ with the given cfg text. Returns ModelResult."""
    name = "MCx_" + hashlib.md5((module + cfg_text).encode()).hexdigest()[:8]
    # wrapper module so that several configurations of one module can coexist
    with open(os.path.join(work.specdir, name + ".cfg"), "w") as f:
        f.write(cfg_text)
    shutil.copy(os.path.join(work.specdir, module + ".tla"), os.path.join(work.specdir, name + ".tla"))
    src = open(os.path.join(work.specdir, name + ".tla")).read()
    src = re.sub(r"MODULE %s\b" % module, "MODULE " + name, src, count=1)
    open(os.path.join(work.specdir, name + ".tla"), "w").write(src)
    return run_model(work, name, out or work.fresh("none"), workers=workers, simulate=simulate, seed=seed, timeout=timeout)


class Job:
    def __init__(self, label, variant, args, env=None, pattern=None):
        self.label, self.variant, self.args, self.env, self.pattern = label, variant, args, env or {}, pattern
        self.trace_files, self.stats, self.rc, self.stderr = [], None, 0, ""


def run_job(work, job, tag):
    drv = build_harness(work, job.variant)
    out = work.path("env-%s" % tag)
    stf = out + ".stats.json"
    args = list(job.args) + ["-out", out if job.pattern else out + ".ndjson", "-stats", stf]
    env = dict(os.environ)
    env.update(job.env)
    p = subprocess.run([drv] + args, capture_output=True, text=True, env=env, timeout=7200)
    job.rc, job.stderr = p.returncode, p.stderr
    if os.path.exists(stf):
        job.stats = json.load(open(stf))
    if job.pattern:
        job.trace_files = sorted(glob.glob(out + job.pattern))
    elif os.path.exists(out + ".ndjson"):
        job.trace_files = [out + ".ndjson"]
    return job


def env_check(work, prop, tier, seed, t0, jobs, invariants, model_runs, rule, assumptions, crash_is_verdict=True,
              race=False, split_marker=None, level="model_checking"):
    maxpar = 6 if race else NCPU
    with cf.ThreadPoolExecutor(max_workers=maxpar) as ex:
        futs = [ex.submit(run_job, work, j, "%d" % i) for i, j in enumerate(jobs)]
        done = [f.result() for f in futs]
    lines = ops = segs = digests = 0
    samples, files, owner = [], [], {}
    violation = None
    for j in done:
        if j.rc != 0:
            if race and "DATA RACE" in j.stderr:
                violation = ("race", j, None, None)
                break
            if crash_is_verdict and re.search(r"fatal error|checkptr|unexpected signal|panic:", j.stderr):
                violation = ("crash", j, None, None)
                break
            raise Infra("job %s failed (%d): %s" % (j.label, j.rc, j.stderr[-1500:]))
        if race and "DATA RACE" in j.stderr:
            violation = ("race", j, None, None)
            break
        s = j.stats or {}
        lines += s.get("lines", 0); ops += s.get("ops", 0); segs += s.get("segments", 0); digests += s.get("distinct_digests", 0)
        for smp in (s.get("samples") or [])[:1]:
            if len(samples) < 10:
                samples.append({"job": j.label, "sample": smp})
        for f in j.trace_files:
            parts = split_at(f, split_marker, 6 << 20) if split_marker else [f]
            for p in parts:
                owner[p] = j
            files += parts
    vio_count = 0
    if not violation:
        t1 = time.time()
        vres = validate_many(work, files, invariants)
        log("validated %d trace files (%d lines) in %.1fs" % (len(files), lines, time.time() - t1))
        for v in vres:
            if v.error:
                raise Infra("trace validation of %s: %s" % (os.path.basename(v.file), v.error))
            if v.invariant:
                violation = ("inv", owner[v.file], v, None)
                break
    if violation:
        kind, job, v, _ = violation
        # confirm: the same job, again, in a fresh process
        rep = {"property": prop, "variant": job.variant, "args": job.args, "env": job.env, "pattern": job.pattern,
               "invariants": invariants, "kind": kind, "label": job.label}
        if kind == "inv":
            rep["invariant"] = v.invariant
            seg = extract_segment(v.file, v.line)
            rep["offending_line"] = describe_line(seg)
        else:
            rep["stderr_tail"] = job.stderr[-3000:]
        confirmed = False
        tries = 5 if kind == "race" else 2
        for i in range(tries):
            j2 = run_job(work, Job(job.label, job.variant, job.args, job.env, job.pattern), "confirm%d" % i)
            if kind in ("race", "crash"):
                if j2.rc != 0 or "DATA RACE" in j2.stderr:
                    confirmed = True
                    break
            else:
                vv = validate_many(work, j2.trace_files, invariants)
                if any(x.invariant for x in vv):
                    confirmed = True
                    break
        os.makedirs(REPLAY_DIR, exist_ok=True)
        path = os.path.join(REPLAY_DIR, "%s-%s.cmd.json" % (prop, hashlib.md5(json.dumps(rep, sort_keys=True).encode()).hexdigest()[:12]))
        if not confirmed:
            raise Infra("%s in job %s did not reproduce in %d fresh runs: %s" % (kind, job.label, tries, json.dumps(rep)[:1500]))
        json.dump(rep, open(path, "w"), indent=1)
        print("VIOLATION property=%s replay=%s" % (prop, path), flush=True)
        if kind == "inv":
            print("  invariant %s fails in job %s at: %s" % (v.invariant, job.label, rep["offending_line"]), flush=True)
        else:
            print("  %s in job %s:\n%s" % (kind, job.label, job.stderr[-1200:]), flush=True)
        vio_count = 1
    ms = sum(r.get("states", 0) for r in model_runs)
    mt = sum(r.get("transitions", 0) for r in model_runs)
    cov = {"states": ms, "transitions": mt, "traces_validated_against_impl": segs or len(files),
           "samples": samples or [{"note": "none"}], "evaluations": max(ops, 1), "distinct_nontrivial": max(digests, 2 if ops else 0),
           "rule": rule, "trace_lines_validated_by_TLC": lines, "trace_invariants": invariants, "model_runs": model_runs,
           "jobs": [j.label for j in jobs], "exhaustive": False}
    if level == "model_checking" and not (ms > 0 and mt > 0):
        level = "exploration"
    write_evidence(prop, tier, seed, level, cov, time.time() - t0, vio_count, assumptions + ASSUME_BASE)
    if vio_count:
        return 1
    print("%s held: %d jobs, %d calls on real trees, %d trace lines validated; model: %d states / %d transitions" % (
        prop, len(jobs), ops, lines, ms, mt), flush=True)
    return 0


def replay_cmd(work, prop, path):
    rep = json.load(open(path))
    job = run_job(work, Job(rep["label"], rep["variant"], rep["args"], rep.get("env"), rep.get("pattern")), "replay")
    if job.rc != 0 or "DATA RACE" in job.stderr:
        print("VIOLATION property=%s replay=%s" % (prop, path))
        print(job.stderr[-1500:])
        return 1
    vv = validate_many(work, [f for f in job.trace_files if os.path.getsize(f) > 0], rep["invariants"], module=rep.get("module", "TraceArt"))
    for x in vv:
        if x.error:
            raise Infra(x.error)
        if x.invariant:
            print("VIOLATION property=%s replay=%s" % (prop, path))
            print("  invariant %s" % x.invariant)
            return 1
    print("replay of %s: the job now satisfies %s" % (path, ", ".join(rep["invariants"])))
    return 0


def pool_model(work, procs):
    if procs == 1:
        cfg = ('CONSTANTS\n Nodes = {n1, n2, n3, n4}\n Trees = {"t1","t2","t3"}\n Procs = {"p1"}\n Owner <- MCOwner1\n'
               ' ClearBeforePut = TRUE\n PutAfterLink = TRUE\n AtomicPool = TRUE\nINIT Init\nNEXT Next\n'
               'INVARIANTS LinkedNotPooled PooledClean SingleOwner NoLeak\nCHECK_DEADLOCK FALSE\n')
    else:
        cfg = ('CONSTANTS\n Nodes = {n1, n2, n3, n4}\n Trees = {"t1","t2"}\n Procs = {"p1","p2"}\n Owner <- MCOwner2\n'
               ' ClearBeforePut = TRUE\n PutAfterLink = TRUE\n AtomicPool = TRUE\nINIT Init\nNEXT Next\n'
               'INVARIANTS LinkedNotPooled PooledClean SingleOwner NoLeak\nCHECK_DEADLOCK FALSE\n')
    r = simple_model(work, "MC_Pool", cfg)
    if r.violation or not r.ok:
        raise Infra("ArtPool model: %s %s" % (r.violation, r.error or r.out_tail))
    return {"stage": "model:ArtPool(%d process%s)" % (procs, "" if procs == 1 else "es"), "states": r.states, "transitions": r.transitions,
            "wall_s": round(r.wall, 1)}


def pool_proof(work):
    """TLAPS: the four safety properties of ArtPool are invariants for ANY number of nodes, trees and processes.
    Informative (the verdict about the code comes from the traces); a prover failure is reported, not fatal."""
    import subprocess
    t1 = time.time()
    d = work.path("tlaps-pool")
    os.makedirs(d, exist_ok=True)
    for f in ("ArtPool.tla", "ArtPoolProof.tla"):
        shutil.copy(os.path.join(work.specdir, f), d)
    try:
        p = subprocess.run(["tlapm", "--threads", "8", "ArtPoolProof.tla"], cwd=d, capture_output=True, text=True, timeout=900)
        m = re.search(r"All (\d+) obligations? proved", p.stdout + p.stderr)
        if m:
            return {"stage": "proof:ArtPoolProof (tlapm): the four pool safety properties are invariants of Spec for any number of nodes, trees, processes",
                    "obligations": int(m.group(1)), "discharged": int(m.group(1)), "wall_s": round(time.time() - t1, 1)}
        return {"stage": "proof:ArtPoolProof (tlapm)", "result": "not all obligations proved", "tail": (p.stdout + p.stderr)[-300:]}
    except Exception as e:
        return {"stage": "proof:ArtPoolProof (tlapm)", "result": "prover did not run: %s" % e}


def env_proof(work):
    """TLAPS: CallerUntouched, KeysOwned and QueriesTransparent are invariants of ArtEnv (code as it runs) for ANY keys,
    buffers, key length and number of operations. Informative, like pool_proof."""
    t1 = time.time()
    d = work.path("tlaps-env")
    os.makedirs(d, exist_ok=True)
    for f in ("ArtEnv.tla", "ArtEnvProof.tla"):
        shutil.copy(os.path.join(work.specdir, f), d)
    label = "proof:ArtEnvProof (tlapm): CallerUntouched, KeysOwned, QueriesTransparent are invariants of ArtEnv for any keys, buffers, lengths, operation counts"
    try:
        p = subprocess.run(["tlapm", "--threads", "4", "ArtEnvProof.tla"], cwd=d, capture_output=True, text=True, timeout=600)
        m = re.search(r"All (\d+) obligations? proved", p.stdout + p.stderr)
        if m:
            return {"stage": label, "obligations": int(m.group(1)), "discharged": int(m.group(1)), "wall_s": round(time.time() - t1, 1)}
        return {"stage": label, "result": "not all obligations proved", "tail": (p.stdout + p.stderr)[-300:]}
    except Exception as e:
        return {"stage": label, "result": "prover did not run: %s" % e}


ITER_CFG = ('CONSTANTS\n N = 4\n K = %d\n MaxPasses = 3\n CounterScope = "%s"\n StackHome = "%s"\n StopHonoured = %s\nINIT Init\nNEXT Next\n'
            'INVARIANTS PassesOK RunningOK\nCHECK_DEADLOCK FALSE\n')


def iter_model(work):
    """ArtIter: the iteration protocol as the code runs it (count per pass, stack per pass or recycled-and-reset, stop honoured),
    with and without a TopK/BottomK limit: every pass over a sequence value delivers the specified prefix."""
    runs = []
    for k, home in ((3, "perPass"), (9, "perPass"), (9, "pooledReset")):
        r = simple_model(work, "ArtIter", ITER_CFG % (k, "perPass", home, "TRUE"))
        if r.violation or not r.ok:
            raise Infra("ArtIter model: %s %s" % (r.violation, r.error or r.out_tail))
        runs.append({"stage": "model:ArtIter(N=4, K=%d, stack %s, 3 passes)" % (k, home), "states": r.states, "transitions": r.transitions,
                     "wall_s": round(r.wall, 1)})
    return runs


def env_model(work):
    cfg = ('CONSTANTS\n Keys = {k1, k2, k3}\n Bufs = {b1, b2}\n KeyLen = 8\n MaxOps = 6\n BufferAppendOnly = FALSE\n AliasCaller = FALSE\n'
           ' WriteTerminator = FALSE\n QueryMemo = "none"\nINIT Init\nNEXT Next\nINVARIANTS CallerUntouched KeysOwned BoundedRetention EmptyRetainsNothing QueriesTransparent\nCHECK_DEADLOCK FALSE\n')
    r = simple_model(work, "ArtEnv", cfg)
    if r.violation or not r.ok:
        raise Infra("ArtEnv model: %s %s" % (r.violation, r.error or r.out_tail))
    return {"stage": "model:ArtEnv", "states": r.states, "transitions": r.transitions, "wall_s": round(r.wall, 1)}


TREE_INVS = ["Inv_C01", "Inv_C02", "Inv_C05", "Inv_C06", "Inv_C11"]


def check_C12(work, prop, tier, seed, t0):
    q = tier == "quick"
    drive = build_harness(work)
    model_runs = [pool_model(work, 1), pool_proof(work)]
    # short fill/drain cycles so that nodes of every class are released by one tree and picked up by another many times
    kinds = "uint8:fan64,alpha/string:fanb,uint16:fanp64,alpha/bytes:fan64,uint32:fanp64" if q else "uint8:fan1,alpha/string:fan1x,int8:fan64,alpha/bytes:fanb,uint8:fan64"
    ni = []
    for ku in kinds.split(","):
        k, u = ku.split(":")
        uni = universe_json(drive, k, u, "q", seed)
        ni.append(sum(1 for e in uni["keys"] if not e["probe"]))
    depth = 1500 if q else 3000
    with open(os.path.join(work.specdir, "MC_Multi.tla"), "w") as f:
        f.write("---- MODULE MC_Multi ----\nEXTENDS ArtMulti\nMCNI == <<%s>>\n====\n" % ", ".join(map(str, ni)))
    with open(os.path.join(work.specdir, "MC_Multi.cfg"), "w") as f:
        f.write("CONSTANTS\n NI <- MCNI\n MaxDepth = %d\nINIT Init\nNEXT Next\nINVARIANTS EmitHist\nCHECK_DEADLOCK FALSE\n" % depth)
    hist = work.path("multi-hist.ndjson")
    r = run_model(work, "MC_Multi", hist, simulate=(2 if q else 10, depth), seed=seed, timeout=1800)
    if not r.ok:
        raise Infra("ArtMulti simulation: %s" % (r.error or r.out_tail))
    with open(hist) as f:
        hs = sorted(set(f.readlines()))
    with open(hist, "w") as f:
        f.writelines(hs)
    model_runs.append({"stage": "sim:ArtMulti", "states": r.states, "transitions": r.transitions, "interleavings": len(hs), "wall_s": round(r.wall, 1)})
    kinds2 = "uint8:fan64,alpha/string:fan64,int8:fanb,alpha/bytes:fan64"
    jobs = [Job("multi:tlc-interleavings", "plain", ["multi", "-kinds", kinds, "-in", hist, "-seed", str(seed)]),
            Job("multi:ramps", "plain", ["multi", "-kinds", kinds2, "-seed", str(seed), "-n", str(2 if q else 8), "-len", str(1500 if q else 4000)]),
            Job("multi:mixed", "plain", ["multi", "-kinds", "collation/string/und:text,uint16:random,alpha/string:long,float64:random,compound/u8+u16:tuple",
                                          "-seed", str(seed + 1), "-n", str(2 if q else 8), "-len", str(600 if q else 2000), "-batevery", "10"])]
    return env_check(work, prop, tier, seed, t0, jobs, TREE_INVS + ["Inv_C12", "Inv_C15"], model_runs,
                     "interleavings of per-tree fill/drain ramps (TLC simulation of ArtMulti, plus harness ramps) over 4-5 real trees of mixed kinds "
                     "on one goroutine, so that nodes of every size class released by one tree are picked up by another; per-tree results, dumps and "
                     "digests judged per tree; emptied trees compared with new ones; distinct_nontrivial = distinct structures over all trees",
                     ["the pool audit (drain/inspect/refill) is logged as a diagnostic note and is never a verdict"], split_marker='{"op":"reset"')


def check_C13(work, prop, tier, seed, t0):
    q = tier == "quick"
    model_runs = [env_model(work), env_proof(work)]
    jobs = []
    kinds = ["alpha/bytes", "collation/bytes/und"] if q else ["alpha/bytes", "collation/bytes/und", "collation/bytes/sv", "collation/bytes/en-num"]
    for k in kinds:
        for u in (["random", "long", "vlong"] if k.startswith("alpha") else ["text"]):
            jobs.append(Job("arena:%s:%s" % (k, u), "plain", ["arena", "-kind", k, "-u", u, "-seed", str(seed), "-n", str(4 if q else 20),
                                                                 "-len", str(60 if q else 150)]))
    return env_check(work, prop, tier, seed, t0, jobs, ["Inv_C13", "Inv_C01", "Inv_C02", "Inv_C03", "Inv_C04", "Inv_C05", "Inv_C11"], model_runs,
                     "every []byte key argument of Insert/Search/Delete/Prefix/Range is passed as a sub-slice of an arena (spare capacity holding live "
                     "data), an exactly full slice or one reused scanner buffer; the arena (full capacity) is logged before and after each call and then "
                     "overwritten; the battery after the overwrite shows what the tree still contains", [])


def check_C16(work, prop, tier, seed, t0):
    q = tier == "quick"
    model_runs = [pool_model(work, 2), pool_proof(work)]
    jobs = []
    for procs in ([2, 4, 16] if not q else [4, 16]):
        for s in range(1 if q else 3):
            jobs.append(Job("conc:procs=%d:seed=%d" % (procs, seed + s), "race",
                            ["conc", "-seed", str(seed + s), "-g", str(12 if q else 24), "-len", str(4000 if q else 12000), "-procs", str(procs)],
                            env={"GORACE": "halt_on_error=0 exitcode=66"}, pattern=".*.ndjson"))
    return env_check(work, prop, tier, seed, t0, jobs, ["Inv_C01", "Inv_C02", "Inv_C03", "Inv_C04", "Inv_C05", "Inv_C06", "Inv_C11", "Inv_C14"], model_runs,
                     "race-detector build; G goroutines with heavy grow/shrink churn on private trees of mixed kinds (shared node pools busy), then G "
                     "readers querying each quiescent shared tree at once; GOMAXPROCS in {2,4,16}, Gosched injection; every goroutine's trace is "
                     "validated against the sequential specification; a race report is a verdict",
                     ["the Go race detector reports no false positives; schedules are sampled by repeated real runs, not enumerated"], race=True,
                     level="exploration")


def check_C17(work, prop, tier, seed, t0):
    q = tier == "quick"
    model_runs = [env_model(work)]
    ops = 100000 if q else 2000000
    kinds = [("alpha/string", "random"), ("alpha/bytes", "long"), ("uint32", "random"), ("uint64", "random"), ("float64", "random"), ("collation/string/und", "text"),
             ("collation/bytes/sv", "text"), ("compound/u16+str", "tuple")]
    if not q:
        kinds += [("int32", "random"), ("collation/runes/und", "text"), ("collation/string/en-num", "text"), ("uint8", "fan1"), ("alpha/string", "fan2")]
    jobs = [Job("mem:%s:%s" % (k, u), "plain", ["mem", "-kind", k, "-u", u, "-seed", str(seed), "-ops", str(ops)]) for k, u in kinds]
    return env_check(work, prop, tier, seed, t0, jobs, ["Inv_C17", "Inv_C01", "Inv_C02", "Inv_C06"], model_runs,
                     "one dedicated process per kind; on a tree of bounded size: %d mixed queries, six runs of %d queries of ONE kind each (search, range, prefix, "
                     "min/max/top/bottom complete and stopped early, walks), %d overwrites, %d delete/re-insert operations, then "
                     "every key deleted; a sliding window over fresh keys at a bounded live size and queries with fresh absent arguments on separate trees; "
                     "live heap after two forced collections at 5 checkpoints per phase; judged by the specification's bounds "
                     "(growth within a phase <= 512 KiB, emptied tree <= 512 KiB above the heap before the first insert)" % (ops, ops // 2, ops, ops),
                     ["heap measurements include the harness's own constant allocations; thresholds are ~50x the observed noise and well below a 16 B/op leak at these counts"],
                     level="exploration")


def check_C18(work, prop, tier, seed, t0):
    q = tier == "quick"
    model_runs = [env_model(work)]
    vts = ["int", "string", "ptr", "bytes", "zero", "big", "rich", "tail"]
    kinds = [("alpha/string", "random"), ("uint32", "random"), ("float64", "random"), ("collation/string/und", "text"), ("compound/u8+str", "tuple"),
             ("alpha/bytes", "vlong"), ("collation/bytes/und", "text"),
             # sort keys beyond the collator buffer's 4 KiB inline array: the stored copy must be the tree's own
             ("collation/string/und", "textlong"),
             # a full 16-slot node losing children from its upper half
             ("uint8", "fan18")]
    if not q:
        kinds += [("alpha/bytes", "long"), ("int64", "random"), ("int8", "fan1"), ("float32", "random"), ("collation/bytes/sv", "text"),
                  ("collation/runes/und", "text"), ("uint8", "fan1")]
    jobs = []
    for i, (k, u) in enumerate(kinds):
        for j, vt in enumerate(vts):
            if q and (i + j) % 2 == 1 and vt not in ("ptr", "rich", "tail"):
                continue
            # strings of 1000+ characters: every dump carries sort keys of several KiB, so these histories stay short and few
            if u == "textlong" and vt not in ("ptr", "string"):
                continue
            n, ln = (2, 40) if u == "textlong" else ((2, 60) if q else (6, 200))
            jobs.append(Job("gc:%s:%s" % (k, vt), "checkptr", ["gc", "-kind", k, "-u", u, "-vt", vt, "-seed", str(seed), "-n", str(n),
                                                               "-len", str(ln)], env={"GOGC": "1"}))
    return env_check(work, prop, tier, seed, t0, jobs, TREE_INVS, model_runs,
                     "value-type matrix (int, string, *struct, []byte, zero-size, 200-byte struct, struct with pointers, struct whose first word is constant) x tree kinds; GC percent 1, "
                     "forced collections between operations, garbage pressure, checkptr instrumentation; every stored key and value deep-compared "
                     "through the id it was made from; a runtime fault (bad pointer, checkptr) is a verdict",
                     ["collector timing is sampled by forced and pressure-driven collections, not enumerated"], level="exploration")


for pid, fn in (("C12", check_C12), ("C13", check_C13), ("C16", check_C16), ("C17", check_C17), ("C18", check_C18)):
    vprops.CHECKS[pid] = fn
