"""Running TLC on the specification modules (model checking / simulation) and
turning its output into implementation tests."""
import json, os, re, shutil, subprocess, time
from vcommon import *

DEFAULT_SWITCHES = {
    "SizeOnSplit": "TRUE", "RangeDepth": '"perPath"', "SearchGuard": "TRUE",
    "LcpBranch": "TRUE", "KCounter": '"perIteration"',
}

ARTTREE_INVS = ["SearchOK", "DeleteResOK", "SizeOK", "AllOK", "BackwardOK", "MinMaxOK", "TopBottomOK",
                "RangeOK", "PrefixOK", "ReiterOK", "WFOK", "ShapeOK", "LeavesOK", "NormalOK"]
ARTTREE_PROPS = ["OverwriteKeepsShape", "FailedDeleteIsNoop", "SizeStep"]


def tla_seq(xs):
    return "<<" + ", ".join(str(x) for x in xs) + ">>"


def universe_json(drive, kind, uname, size, seed):
    p = run_drive(drive, ["universe", "-kind", kind, "-u", uname, "-size", size, "-seed", str(seed)])
    return json.loads(p.stdout)


def write_mc(work, name, uni, emit, max_depth=0, ramp=False, switches=None, invariants=None, props=None, view=True,
             extra_inv=None, start_full=False, cov=False, protect=True, fillcap=0, floor=0):
    sw = dict(DEFAULT_SWITCHES)
    if switches:
        sw.update(switches)
    keys = ",\n  ".join("[t |-> %s, o |-> %s, probe |-> %s]" % (tla_seq(k["t"]), tla_seq(k["o"]), "TRUE" if k["probe"] else "FALSE")
                        for k in uni["keys"])
    bad = ", ".join("<<%d, %d>>" % (a, b) for a, b in uni.get("rangeBad", []))
    mod = "MC_" + name
    with open(os.path.join(work.specdir, mod + ".tla"), "w") as f:
        f.write("---- MODULE %s ----\nEXTENDS ArtTree\nMCKeys == <<\n  %s\n>>\nMCRangeBad == {%s}\n====\n" % (mod, keys, bad))
    invs = list(invariants if invariants is not None else ARTTREE_INVS)
    if max_depth > 0:
        invs.append("EmitHist")
    if extra_inv:
        invs += extra_inv
    prs = props if props is not None else ARTTREE_PROPS
    with open(os.path.join(work.specdir, mod + ".cfg"), "w") as f:
        f.write("CONSTANTS\n Keys <- MCKeys\n RangeBad <- MCRangeBad\n Family = \"%s\"\n" % uni["family"])
        f.write(" EmitEdges = %s\n MaxDepth = %d\n Ramp = %s\n StartFull = %s\n CovOn = %s\n ProtectEnds = %s\n" % (
            "TRUE" if emit else "FALSE", max_depth, "TRUE" if ramp else "FALSE", "TRUE" if start_full else "FALSE",
            "TRUE" if cov else "FALSE", "TRUE" if protect else "FALSE"))
        f.write(" FillCap = %d\n DrainFloor = %d\n" % (fillcap, floor))
        for k, v in sw.items():
            f.write(" %s = %s\n" % (k, v))
        f.write("INIT Init\nNEXT Next\n")
        if view:
            f.write("VIEW View\n")
        if invs:
            f.write("INVARIANTS\n" + "".join("  %s\n" % i for i in invs))
        if prs and max_depth == 0:
            f.write("PROPERTIES\n" + "".join("  %s\n" % p for p in prs))
        if cov:
            f.write("POSTCONDITION CovReport\n")
        f.write("CHECK_DEADLOCK FALSE\n")
    return mod


def model_coverage(work, drive, cases, seed=1):
    """Vacuity report: how often each tagged code path of the L1 model was evaluated by TLC over the given closed
    universes (one worker; counters live in TLC registers). cases: [(kind, universe, size)]."""
    names, total = None, None
    for kind, uname, size in cases:
        uni = universe_json(drive, kind, uname, size, seed)
        mod = write_mc(work, "cov_%s_%s" % (kind.replace("/", "_"), uname), uni, emit=False, props=[], cov=True)
        # registers must exist before the first Cov(): initialise them through an ASSUME-like constant evaluation in Init
        src = os.path.join(work.specdir, mod + ".tla")
        txt = open(src).read().replace("EXTENDS ArtTree", "EXTENDS ArtTree\nASSUME CovInit")
        open(src, "w").write(txt)
        out = work.fresh("covout")
        r = run_model(work, mod, out, workers=1, timeout=1800)
        m = re.search(r'"COV",\s*"\[([0-9, ]+)\]"', r.out_tail)
        if not m:
            return {"error": "no coverage report: " + (r.error or r.out_tail[-300:])}
        counts = [int(x) for x in m.group(1).split(",")]
        total = counts if total is None else [a + b for a, b in zip(total, counts)]
    spec = open(os.path.join(work.specdir, "ArtTree.tla")).read()
    mm = re.search(r"CovNames == <<(.*?)>>", spec, re.S)
    names = re.findall(r'"([^"]+)"', mm.group(1))
    return {"evaluations_per_code_path": dict(zip(names, total)), "never_evaluated": [n for n, c in zip(names, total) if c == 0],
            "universes": ["%s:%s" % (k, u) for k, u, _ in cases]}


_edge_re = re.compile(r'^<<"(EDGE|HIST)", "(.*)">>$')


def _unescape(s):
    return s.replace('\\"', '"').replace("\\\\", "\\")


class ModelResult:
    def __init__(self):
        self.ok = False
        self.states = 0          # distinct states
        self.transitions = 0     # states generated (= transitions explored)
        self.edges_file = None
        self.edges = 0
        self.violation = None    # invariant / property name
        self.error = None
        self.wall = 0.0
        self.out_tail = ""


def run_model(work, mod, out_edges, workers=8, xmx="6g", timeout=3600, simulate=None, seed=1, coverage=False):
    """simulate: (num, depth) or None for exhaustive BFS."""
    res = ModelResult()
    meta = work.fresh("mcmeta")
    cmd = java_cmd(xmx=xmx, gc="-XX:+UseParallelGC", short=False) + ["-metadir", meta, "-noGenerateSpecTE", "-nowarning",
                                                         "-config", mod + ".cfg"]
    if simulate:
        num, depth = simulate
        cmd += ["-workers", "1", "-simulate", "num=%d" % num, "-depth", str(depth), "-seed", str(seed)]
    else:
        # edges are printed from inside the actions: one worker keeps the output deterministic
        cmd += ["-workers", str(workers)]
    if coverage:
        cmd += ["-coverage", "1"]
    cmd.append(mod + ".tla")
    t0 = time.time()
    n = 0
    try:
        with open(out_edges, "w") as ef:
            p = subprocess.Popen(cmd, cwd=work.specdir, stdout=subprocess.PIPE, stderr=subprocess.STDOUT, text=True)
            tail, verdict_lines = [], []
            for ln in p.stdout:
                ln = ln.rstrip("\n")
                m = _edge_re.match(ln)
                if m:
                    ef.write(_unescape(m.group(2)) + "\n")
                    n += 1
                    continue
                tail.append(ln)
                if "violated" in ln:
                    verdict_lines.append(ln)   # a long counterexample may push the verdict out of the tail
                if len(tail) > 400:
                    tail = tail[-200:]
                if time.time() - t0 > timeout:
                    p.kill()
                    res.error = "TLC timeout"
                    break
            p.wait()
    finally:
        shutil.rmtree(meta, ignore_errors=True)
    res.wall = time.time() - t0
    res.edges_file, res.edges = out_edges, n
    out = "\n".join(verdict_lines + tail)
    res.out_tail = "\n".join(l for l in tail if not l.startswith(("Semantic", "Linting", "Parsing")))[-3000:]
    m = re.search(r"(\d+) states generated, (\d+) distinct states found", out)
    if m:
        res.transitions, res.states = int(m.group(1)), int(m.group(2))
    mi = re.search(r"Invariant (\w+) is violated", out)
    if mi:
        res.violation = mi.group(1)
        return res
    if re.search(r"Action property (\w+) is violated|Temporal properties were violated|Action property .* violated", out):
        mm = re.search(r"Action property (\w+)", out)
        res.violation = mm.group(1) if mm else "action-property"
        return res
    if res.error:
        return res
    if simulate:
        # simulation ends when num behaviours were generated
        if "Error:" in out and "violated" not in out and "The number of states generated" not in out:
            if re.search(r"^Error: ", out, re.M):
                res.error = "TLC error:\n" + res.out_tail
                return res
        res.ok = True
        if not m:
            ms = re.search(r"The number of states generated: (\d+)", out)
            if ms:
                res.transitions = res.states = int(ms.group(1))
        return res
    if "Model checking completed. No error has been found." in out:
        res.ok = True
        return res
    res.error = "TLC did not finish cleanly:\n" + res.out_tail
    return res
