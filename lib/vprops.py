"""Per-property check procedures."""
import json, os, re, shutil, time, hashlib, random
from vcommon import *
from vmodel import *
from vtree import *

SIMPLE_KINDS = ["alpha/string", "alpha/bytes", "uint8", "uint16", "uint32", "uint64", "uint",
                "int8", "int16", "int32", "int64", "int", "float32", "float64"]
COLL_KINDS_Q = ["collation/string/und", "collation/bytes/sv", "collation/runes/und", "collation/string/en-num"]
COLL_KINDS_T = ["collation/%s/%s" % (kt, c) for kt in ("string", "bytes") for c in
                ("und", "sv", "de", "es", "da", "fr", "en-num", "und-num")] + ["collation/runes/und"]

ASSUME_BASE = [
    "TLC, SANY, the JVM and the Go toolchain are trusted",
    "the harness's oracle comparators (bytes.Compare, native <, float order of the statement, collator.Compare, "
    "field-wise tuple compare) assign the ranks; the library's encoders are never used for ranks",
    "the read-only verif-tagged walker reports the structure faithfully (cross-checked: leaves vs Present(m), size)",
    "closed exploration is exhaustive only for the listed small universes; beyond them simulation and random histories sample",
]


def rand_schemas(seed, n):
    r = random.Random(seed)
    names = ["u8", "u16", "u32", "u64", "i8", "i16", "i32", "i64", "f32", "f64"]
    out = []
    for _ in range(n):
        k = r.randint(1, 4)
        fs = [r.choice(names) for _ in range(k)]
        if r.random() < 0.4:
            fs[-1] = "str"
        out.append("compound/" + "+".join(fs))
    return out


# ---- violation handling -------------------------------------------------------------

def save_replay(prop, seg_lines):
    os.makedirs(REPLAY_DIR, exist_ok=True)
    hid = hashlib.md5("".join(seg_lines).encode()).hexdigest()[:12]
    path = os.path.join(REPLAY_DIR, "%s-%s.ndjson" % (prop, hid))
    with open(path, "w") as f:
        f.writelines(seg_lines)
    return path


def confirm(work, drive, replay_path, invariants):
    """Re-execute the recorded calls in a fresh process and re-validate."""
    new = work.fresh("rerun") + ".ndjson"
    p = run_drive(drive, ["rerun", "-in", replay_path, "-out", new], allow_fail=True)
    if p.returncode != 0:
        # the driver itself died (fatal runtime error, not a recoverable panic): that is a verdict in itself
        return ("crash", p.stderr[-1500:])
    v = validate_trace(work, new, invariants)
    if v.invariant:
        return ("confirmed", v.invariant)
    if v.error:
        return ("error", v.error)
    return ("unreproduced", None)


def describe_line(seg_lines):
    e = json.loads(seg_lines[-1])
    for k in ("dump", "u", "raw"):
        e.pop(k, None)
    if e.get("op") == "Batch":
        e["items"] = ["%d read-only calls" % len(e["items"])]
    return json.dumps(e)[:400]


C15_RESULT_INVS = ["Inv_C01", "Inv_C02", "Inv_C03", "Inv_C04", "Inv_C05", "Inv_C06"]
MUTATING_LINES = ("new", "reset", "clear", "Insert", "Delete", "Pre", "GC", "Note")


def reads_stripped(seg_lines):
    """The same history without the read-only calls interleaved before the last line."""
    out = []
    for i, ln in enumerate(seg_lines):
        if i == len(seg_lines) - 1 or json.loads(ln).get("op") in MUTATING_LINES:
            out.append(ln)
    return out


def handle_violations(work, drive, prop, out, invariants):
    """Returns (violations, known). A violation is reported only after it reproduced in a fresh process."""
    known = []
    # traces lying inside the signature of a known finding: show that the finding is still there
    for kf in out.known_files:
        v = validate_trace(work, kf, invariants)
        if v.error:
            raise Infra("trace validation: " + v.error)
        if not v.invariant:
            continue
        seg = extract_segment(kf, v.line)
        replay_path = save_replay(prop, seg)
        status, info = confirm(work, drive, replay_path, invariants)
        k = match_known(prop, seg)
        try:
            os.remove(replay_path)
        except FileNotFoundError:
            pass
        if status in ("confirmed", "crash") and k and k["id"] not in [x[0] for x in known]:
            msg = "KNOWN-FINDING: property=%s %s (%s at: %s)" % (prop, k["what"], v.invariant, describe_line(seg))
            print(msg, flush=True)
            known.append((k["id"], msg))
    if not out.violation:
        return 0, known
    inv, file, line = out.violation
    seg = extract_segment(file, line)
    if file in out.file_cmd:
        # executions that depend on how the caller hands over its buffers: re-run the same harness command in a fresh process
        import venv
        c = out.file_cmd[file]
        rep = {"property": prop, "variant": c["variant"], "args": c["args"], "env": {}, "pattern": None, "invariants": invariants,
               "kind": "inv", "label": c["label"], "invariant": inv, "offending_line": describe_line(seg)}
        j2 = venv.run_job(work, venv.Job(c["label"], c["variant"], c["args"]), "confirm")
        again = [x for x in validate_many(work, j2.trace_files, invariants) if x.invariant]
        if j2.rc != 0 or again:
            os.makedirs(REPLAY_DIR, exist_ok=True)
            path = os.path.join(REPLAY_DIR, "%s-%s.cmd.json" % (prop, hashlib.md5(json.dumps(rep, sort_keys=True).encode()).hexdigest()[:12]))
            json.dump(rep, open(path, "w"), indent=1)
            print("VIOLATION property=%s replay=%s" % (prop, path), flush=True)
            print("  invariant %s fails at: %s" % (inv, describe_line(seg)), flush=True)
            return 1, known
        raise Infra("violation of %s in %s did not reproduce when the command was run again" % (inv, c["label"]))
    replay_path = save_replay(prop, seg)
    status, info = confirm(work, drive, replay_path, invariants)
    if status == "confirmed" and prop == "C15" and inv in C15_RESULT_INVS:
        # a wrong result is C15's business only if the interleaved read-only calls caused it: re-execute the
        # same history without them (the failing line itself stays) - right now means the reads mattered
        bare = reads_stripped(seg)
        bare_path = save_replay(prop + "bare", bare)
        st2, info2 = confirm(work, drive, bare_path, invariants)
        os.remove(bare_path)
        if st2 != "unreproduced":
            os.remove(replay_path)
            print("note: %s fails at %s also without the interleaved read-only calls (%s): a wrong result, but not an effect "
                  "of queries - outside C15" % (inv, describe_line(seg), st2), flush=True)
            # the digest clauses proper (queries, failed deletes, overwrites leave the structure alone) are judged on their own
            for v in validate_many(work, out.trace_files, ["Inv_C15"]):
                if v.error:
                    raise Infra("trace validation: " + v.error)
                if v.invariant:
                    seg2 = extract_segment(v.file, v.line)
                    rp2 = save_replay(prop, seg2)
                    s3, _ = confirm(work, drive, rp2, ["Inv_C15"])
                    if s3 in ("confirmed", "crash"):
                        print("VIOLATION property=%s replay=%s" % (prop, rp2), flush=True)
                        print("  invariant Inv_C15 fails at: %s" % describe_line(seg2), flush=True)
                        return 1, known
                    os.remove(rp2)
            return 0, known
    if status in ("confirmed", "crash"):
        print("VIOLATION property=%s replay=%s" % (prop, replay_path), flush=True)
        print("  invariant %s fails at: %s" % (inv, describe_line(seg)), flush=True)
        return 1, known
    os.remove(replay_path)
    if status == "unreproduced":
        raise Infra("violation of %s at %s:%d did not reproduce in a fresh process" % (inv, file, line))
    raise Infra("could not confirm violation: %s" % info)


def remainder_after(file, line):
    """A trace file holding what follows the segment containing `line` (None if nothing)."""
    with open(file) as f:
        lines = f.readlines()
    head = lines[0]
    nxt = None
    for i in range(line, len(lines)):
        if lines[i].startswith('{"op":"clear"') or lines[i].startswith('{"op":"new"'):
            nxt = i
            break
    if nxt is None:
        return None
    rest = file + ".rest%d" % line
    with open(rest, "w") as f:
        if lines[nxt].startswith('{"op":"new"'):
            f.writelines(lines[nxt:])
        else:
            f.write(head)
            f.writelines(lines[nxt + 1:])
    return rest


def replay(work, prop, path):
    drive = build_harness(work)
    invs = PROP_INVS.get(prop, ["Inv_" + prop])
    status, info = confirm(work, drive, path, invs)
    if status in ("confirmed", "crash"):
        seg = open(path).readlines()
        k = match_known(prop, seg)
        if k:
            print("KNOWN-FINDING: property=%s %s" % (prop, k["what"]))
            return 0
        print("VIOLATION property=%s replay=%s" % (prop, path))
        print("  %s" % info)
        return 1
    if status == "unreproduced":
        print("replay of %s: the recorded calls now satisfy %s" % (path, ", ".join(invs)))
        return 0
    raise Infra(str(info))


# ---- generic tree check ---------------------------------------------------------------

def finish(prop, tier, seed, t0, out, violations, known, level, rule, invariants, extra_cov=None, assumptions=None):
    cov = {
        "states": out.model_states, "transitions": out.model_transitions,
        "traces_validated_against_impl": out.segments,
        "samples": out.samples or [{"note": "no history sampled"}],
        "evaluations": out.ops,
        "distinct_nontrivial": out.digests,
        "rule": rule,
        "trace_lines_validated_by_TLC": out.trace_lines,
        "trace_invariants": invariants,
        "model_runs": out.model_runs,
        "kinds": sorted(out.kinds),
        "known_findings_reported": [k[0] for k in known],
        "notes": out.notes,
        "exhaustive": False,
    }
    if extra_cov:
        cov.update(extra_cov)
    if level == "model_checking" and (cov["states"] < 1 or cov["transitions"] < 1):
        level = "exploration"
    write_evidence(prop, tier, seed, level, cov, time.time() - t0, violations, (assumptions or []) + ASSUME_BASE)


def tree_check(work, prop, tier, seed, t0, stages, invariants, model_invs, rule, model_props=None, assumptions=None,
               extra_cov=None, level="model_checking", drift=False):
    drive = build_harness(work)
    out = tree_pipeline(work, prop, stages, invariants, seed, model_invs=model_invs, model_props=model_props, drive=drive)
    violations, known = handle_violations(work, drive, prop, out, invariants)
    if out.model_violation and not violations:
        # the model with default switches describes the repaired tree; if it breaks its own invariants while every
        # real execution satisfies the property, the model or its configuration is wrong: never a verdict about the code
        raise Infra("model %s violates %s with default switches although all traces validate:\n%s" % out.model_violation)
    if extra_cov is not None and extra_cov.pop("want_model_coverage", False) and not violations:
        # vacuity report: which code paths of the L1 model did TLC actually evaluate over the closed universes
        extra_cov["model_code_path_coverage"] = model_coverage(work, drive, [("alpha/string", u, "q") for u in ("split", "long", "range", "prefix", "lfan")], seed)
    if drift and not violations:
        # conformance of the L1 model itself to the real structure (size classes, inline bytes): informative
        extra_cov = dict(extra_cov or {})
        extra_cov["model_drift_L1_vs_real_dumps"] = measure_drift(work, out.trace_files)
        if out.known_files:
            # does the implementation-shaped model also explain what the real tree does inside the known finding?
            extra_cov["model_drift_inside_known_finding"] = measure_drift(work, out.known_files)
    finish(prop, tier, seed, t0, out, violations, known, level, rule, invariants, extra_cov, assumptions)
    if violations:
        return 1
    print("%s held: %d model states / %d transitions (TLC), %d real histories, %d calls, %d trace lines validated" % (
        prop, out.model_states, out.model_transitions, out.segments, out.ops, out.trace_lines), flush=True)
    return 0


RULE_TREE = ("every transition of the L1 model over the closed universes (BFS, one test per (state, operation)) is replayed on "
             "real trees; simulation ramps and seeded random histories add fan-outs beyond the closed universes; each "
             "recorded call is one evaluation; distinct_nontrivial = distinct structural digests (values ignored) of real "
             "trees holding >= 2 keys, counted per stage and summed")


def std_stages(tier, seed, battery, closed=("split", "long"), kinds_random=None, fan=True, model_kinds=None,
               rnd_n=None, rnd_len=None, extra=None):
    q = tier == "quick"
    size = "q" if q else "t"
    st = []
    mk = model_kinds or (["alpha/string"] if q else ["alpha/string", "alpha/bytes"])
    st.append(Stage("model", "alpha/string", "lfan", size, battery))
    # executions nobody here designed: the repository's own tests, unedited, under the call recorder; large trees
    # (235 886 words) are judged through key-sample projections. Quick: the first 1 500 calls of every tree.
    st.append(Stage("suite", "suite", "repository-tests", size, battery, max=(1500 if q else 0), proj=(3 if q else 6)))
    # the values are the tree's to keep alive: pointer-carrying value types, forced collections between the calls
    for k, vt in (("uint32", "ptr"), ("alpha/string", "string"), ("float64", "rich"), ("int16", "tail")) if q else (
            ("int16", "tail"), ("collation/string/und", "tail"),
            ("uint32", "ptr"), ("alpha/string", "string"), ("float64", "rich"), ("int16", "bytes"), ("alpha/bytes", "ptr"), ("uint64", "string")):
        st.append(Stage("gc", k, "text" if k.startswith("collation") else "random", size, battery, vt=vt, n=(2 if q else 6), len=(60 if q else 150)))
    # lengths and depths around 255 / 256 (closed), around 65535 / 65536 (random histories, no dumps)
    # (keys of 300 bytes make the model's own all-arguments invariants slow: on these universes TLC enumerates the
    # transitions and checks size and shape; the real trees are judged by the traces as everywhere)
    st.append(Stage("model", "alpha/string", "huge", size, battery, cap=(3000 if q else 20000), invs=["SizeOK", "WFOK"]))
    st.append(Stage("model", "alpha/bytes", "huge2", size, battery, invs=["SizeOK", "WFOK"]))
    st.append(Stage("random", "compound/u8+str", "giant", size, battery, n=(2 if q else 6), len=(24 if q else 60), batevery=3, dumpevery=100000))
    st.append(Stage("model", "compound/u16+str", "huge2", size, battery, invs=["SizeOK", "WFOK"]))
    # the closures test one step after the shortest history of every state; what a collapse or split leaves behind shows in
    # LATER steps: random histories over the same universes
    for k, u in (("alpha/string", "huge2"), ("alpha/bytes", "huge")):
        st.append(Stage("random", k, u, size, battery, n=(6 if q else 20), len=(40 if q else 80), batevery=1, dumpevery=4))
    st.append(Stage("random", "alpha/bytes", "giant", size, battery, n=(2 if q else 6), len=(24 if q else 60), batevery=3, dumpevery=100000))
    for u in closed:
        for k in mk:
            # thorough closures have up to 2^13 states x ~40 operations: replay a seeded sample of 120 000 transitions per stage
            st.append(Stage("model", k, u, size, battery, cap=(None if q else 120000)))
    # numeric kinds: closed universes of fixed-width patterns (shape differs per encoding)
    nk = ["uint32", "int16", "float64"] if q else ["uint8", "uint16", "uint32", "uint64", "int8", "int16", "int32", "int64", "float32", "float64"]
    for k in nk:
        st.append(Stage("model", k, "fixedq", size, battery, cap=(4000 if q else None)))
    if fan:
        # 256 children: one behaviour family fills the node from empty (4 -> 16 -> 48 -> 256), the other starts from the
        # full node and drains it (256 -> 48 at 37, -> 16 at 12, -> 4 at 3): both directions within a bounded depth
        st.append(Stage("sim", "uint8", "fan1", size, battery, num=(1 if q else 4), depth=(480 if q else 1000), ramp=True,
                        invs=["SizeOK", "AllOK"], every=False))
        st.append(Stage("sim", "uint8", "fan1", size, battery, num=(1 if q else 4), depth=(480 if q else 1000), ramp=True,
                        invs=["SizeOK", "AllOK"], every=False, start_full=True))
        st.append(Stage("sim", "alpha/string", "fan2", size, battery, num=(2 if q else 8), depth=(200 if q else 400), ramp=True,
                        invs=["SearchOK", "SizeOK", "AllOK", "WFOK"], every=False))
        # 256-class node below a compressed path, with the terminator child (alpha) / fixed high bytes (numeric)
        st.append(Stage("sim", "alpha/bytes", "fan1x", size, battery, num=(1 if q else 4), depth=(480 if q else 1000), ramp=True,
                        invs=["SizeOK", "AllOK"], every=False, start_full=q))
        st.append(Stage("sim", "uint32", "fanp", size, battery, num=(1 if q else 4), depth=(480 if q else 1000), ramp=True,
                        invs=["SizeOK", "AllOK"], every=False, start_full=True))
        if not q:
            st.append(Stage("sim", "alpha/bytes", "fan1x", size, battery, num=4, depth=900, ramp=True,
                            invs=["SizeOK", "AllOK"], every=False, start_full=True))
            st.append(Stage("sim", "uint32", "fanp", size, battery, num=4, depth=900, ramp=True,
                            invs=["SizeOK", "AllOK"], every=False))
        # a wide (256-slot class) node with later siblings
        st.append(Stage("sim", "alpha/string", "fanw", size, battery, num=(2 if q else 8), depth=(260 if q else 500), ramp=True,
                        invs=["SizeOK", "AllOK", "WFOK"], every=False, batevery=4))
        # a 16-slot node that gets completely full and is drained again (never grows to the 48-slot class)
        st.append(Stage("sim", "uint8", "fan16", size, battery, num=(2 if q else 8), depth=(260 if q else 520), ramp=True,
                        invs=["SearchOK", "SizeOK", "AllOK", "MinMaxOK", "WFOK"], every=False, batevery=1))
        # the same small fans with the extremes deleted EAGERLY while draining (largest / smallest child removed from a full node)
        for kind, u in (("uint8", "fan16"), ("alpha/string", "fan18"), ("int8", "fanb")):
            st.append(Stage("sim", kind, u, size, battery, num=(2 if q else 8), depth=(260 if q else 520), ramp=True,
                            invs=["SizeOK", "AllOK"], every=False, batevery=1, protect=False))
        # a node that gets FULL at 16 children out of a larger byte alphabet, never grows, is drained to 2 (extremes first) and
        # refilled with other bytes: what a full node leaves behind in its unused lanes meets new larger / in-between bytes
        for kind, u in (("uint8", "fan1"), ("alpha/bytes", "fan64")):
            st.append(Stage("sim", kind, u, size, battery, num=(2 if q else 8), depth=(300 if q else 600), ramp=True,
                            invs=["SizeOK", "AllOK"], every=False, batevery=1, protect=False, fillcap=16, floor=2))
        # churn INSIDE one size class (the node is never rebuilt): slots / lanes freed and taken again many times over
        for kind, u, cap, floor in (("uint8", "fan18", 14, 5), ("uint8", "fan64", 30, 18), ("alpha/bytes", "fan64", 64, 40)):
            st.append(Stage("sim", kind, u, size, battery, num=(2 if q else 8), depth=(300 if q else 600), ramp=True,
                            invs=["SizeOK", "AllOK"], every=False, batevery=2, protect=False, fillcap=cap, floor=floor))
        # short cycles through the 4- and 16-slot capacities with extreme-key churn
        st.append(Stage("sim", "uint8", "fan18", size, battery, num=(3 if q else 12), depth=(300 if q else 600), ramp=True,
                        invs=["SearchOK", "SizeOK", "AllOK", "MinMaxOK", "WFOK"], every=False, batevery=1))
        st.append(Stage("sim", "alpha/string", "fan18", size, battery, num=(2 if q else 8), depth=(300 if q else 600), ramp=True,
                        invs=["SearchOK", "SizeOK", "AllOK", "MinMaxOK", "WFOK"], every=False, batevery=1))
        # 4 -> 16 -> 48 and back BELOW a compressed path longer than the inline limit (resizes carry the true length)
        st.append(Stage("sim", "alpha/string", "lfan20", size, battery, num=(2 if q else 8), depth=(240 if q else 500), ramp=True,
                        invs=["SearchOK", "SizeOK", "AllOK", "WFOK"], every=False, batevery=2))
        # 4/16/48-class node holding the boundary bytes
        st.append(Stage("sim", "int8", "fanb", size, battery, num=(2 if q else 8), depth=(200 if q else 400), ramp=True,
                        invs=["SearchOK", "SizeOK", "AllOK", "WFOK"], every=False, batevery=6))
        st.append(Stage("sim", "alpha/string", "fanb", size, battery, num=(2 if q else 8), depth=(200 if q else 400), ramp=True,
                        invs=["SearchOK", "SizeOK", "AllOK", "WFOK"], every=False, batevery=6))
        # the portable 16-slot routines (GOARCH=386 build; amd64 and arm64 use assembly) under boundary-byte ramps
        st.append(Stage("sim", "uint8", "fanb", size, battery, num=(1 if q else 6), depth=(200 if q else 400), ramp=True,
                        invs=["SizeOK", "AllOK"], every=False, batevery=6, variant="386"))
        st.append(Stage("sim", "alpha/string", "fan18", size, battery, num=(1 if q else 6), depth=(300 if q else 600), ramp=True,
                        invs=["SizeOK", "AllOK"], every=False, batevery=1, variant="386"))
    # the closed universes again as random histories (steps AFTER a split / collapse / re-rooting, which the closures' one
    # step past each state's shortest history never takes)
    for i, u in enumerate(tuple(closed) + ("lfan",)):
        st.append(Stage("random", "alpha/string" if i % 2 == 0 else "alpha/bytes", u, size, battery, n=(5 if q else 20), len=(40 if q else 90),
                        batevery=1, dumpevery=3))
    # the boundary values of every numeric width (0, -1, extremes and neighbours, float specials)
    for k in (["int8", "uint16", "int32", "uint64", "int", "float32", "float64"] if q else
              ["uint8", "uint16", "uint32", "uint64", "uint", "int8", "int16", "int32", "int64", "int", "float32", "float64"]):
        st.append(Stage("random", k, "bounds", size, battery, n=(4 if q else 12), len=(40 if q else 90), batevery=2, dumpevery=4))
    kr = kinds_random if kinds_random is not None else SIMPLE_KINDS
    n = rnd_n or (4 if q else 30)
    ln = rnd_len or (50 if q else 120)
    for k in kr:
        st.append(Stage("random", k, "random", size, battery, n=n, len=ln, batevery=(3 if q else 2)))
    if extra:
        st += extra
    return st


PROP_INVS = {
    "C01": ["Inv_C01"], "C02": ["Inv_C02", "Inv_C02P"], "C03": ["Inv_C03", "Inv_C03P"], "C04": ["Inv_C04", "Inv_C04P"],
    "C05": ["Inv_C05", "Inv_C05P"],
    "C06": ["Inv_C06"], "C11": ["Inv_C11"], "C14": ["Inv_C14"],
    # C15: the digest is untouched by queries, and - "hence ... without affecting any later result" - results
    # stay the ideal map's with reads interleaved everywhere (attributed to the reads by a differential re-run)
    "C15": ["Inv_C15", "Inv_C01", "Inv_C02", "Inv_C03", "Inv_C04", "Inv_C05", "Inv_C06"],
    "C08": ["Inv_C01", "Inv_C02", "Inv_C05", "Inv_C06", "Inv_C11"],
    "C09": ["Inv_C01", "Inv_C02", "Inv_C03", "Inv_C05", "Inv_C06", "Inv_C11"],
}


def coll_stages(tier, battery, n=None, ln=None):
    q = tier == "quick"
    kinds = COLL_KINDS_Q if q else COLL_KINDS_T
    st = [Stage("model", "collation/string/und", "textq", "q", battery),
          Stage("random", "collation/string/und", "textq", "q", battery, n=(5 if q else 20), len=(40 if q else 90), batevery=1, dumpevery=3)]
    for k in kinds:
        st.append(Stage("random", k, "text", "q" if q else "t", battery, n=n or (3 if q else 12), len=ln or (60 if q else 150),
                        batevery=(3 if q else 2)))
    # a fan of > 16 children in the sort-key space (48-slot class in the hand-written copy)
    st.append(Stage("sim", "collation/string/und", "han", "q", battery, num=(2 if q else 8), depth=(260 if q else 520), ramp=True,
                    invs=["SizeOK", "AllOK", "WFOK"], every=False, batevery=3))
    st.append(Stage("random", "collation/bytes/und", "han", "q", battery, n=(2 if q else 10), len=(120 if q else 200), batevery=3))
    # strings of 1000+ characters: sort keys longer than the collator buffer's inline array
    st.append(Stage("random", "collation/string/und", "textlong", "q", battery, n=(2 if q else 8), len=(24 if q else 50), batevery=4, dumpevery=6))
    st.append(Stage("model", "collation/string/und", "textcase", "q", battery))
    st.append(Stage("model", "collation/string/und", "textskip", "q", battery))
    # absent keys whose sort keys end around the depth an optimistic skip arrives at
    for k in (["collation/string/und"] if q else ["collation/string/und", "collation/bytes/sv", "collation/runes/und"]):
        st.append(Stage("random", k, "textrep", "q", battery, n=(8 if q else 24), len=(30 if q else 60), batevery=3, dumpevery=5))
    # stored keys that are not in composed normal form: the tree must hand back the bytes that were inserted
    for k in (["collation/string/und", "collation/bytes/sv"] if q else ["collation/string/und", "collation/bytes/sv", "collation/runes/und", "collation/string/fr"]):
        st.append(Stage("random", k, "textnfd", "q", battery, n=(3 if q else 10), len=(40 if q else 100), batevery=2))
    # exactly 16 siblings at one sort-key position
    st.append(Stage("sim", "collation/string/und", "greek16", "q", battery, num=(2 if q else 8), depth=(220 if q else 440), ramp=True,
                    invs=["SizeOK", "AllOK"], every=False, batevery=1))
    return st


def comp_stages(tier, seed, battery, n=None, ln=None):
    q = tier == "quick"
    st = []
    # tuples sharing a 16-byte encoded path, absent tuples differing only inside its non-inlined part
    st.append(Stage("model", "compound/u64+u64+u8", "tuplelong", "q", battery))
    # bounds whose common prefix ends inside a compressed path, above / below everything stored
    st.append(Stage("model", "compound/u32+u32", "tuplerange", "q", battery.replace("range=20", "range=-1").replace("range=60", "range=-1").replace("range=40", "range=-1").replace("range=100", "range=-1")))
    # a 256-way root in a compound tree (first field int8/uint8: 0xFF and 0x00 branches included)
    for s in (["compound/i8+u16"] if q else ["compound/i8+u16", "compound/u8+str", "compound/u8+f32"]):
        st.append(Stage("sim", s, "tuplefan", "q", battery, num=(1 if q else 4), depth=(480 if q else 1000), ramp=True,
                        invs=["SizeOK", "AllOK"], every=False, start_full=True))
        # ... and filled from empty (insert positions in 16-slot nodes whose upper lanes hold bytes >= 0x80)
        st.append(Stage("sim", s, "tuplefan", "q", battery, num=(1 if q else 4), depth=(220 if q else 900), ramp=True, invs=["SizeOK", "AllOK"],
                        every=False, batevery=4))
    # many short fills of the 256-way root: each passes through the 16-slot class with bytes on both sides of 0x80
    st.append(Stage("random", "compound/i8+u16", "tuplefan", "q", battery, n=(12 if q else 40), len=30, batevery=1, dumpevery=6))
    st.append(Stage("random", "compound/u64+u64+u8", "tuplelong", "q", battery, n=(5 if q else 20), len=(40 if q else 90), batevery=1, dumpevery=3))
    schemas = rand_schemas(seed, 4 if q else 20)
    for i, s in enumerate(schemas):
        if i < (1 if q else 4):
            st.append(Stage("model", s, "tupleq", "q", battery, useed=seed + i))
        st.append(Stage("random", s, "tuple", "q" if q else "t", battery, n=n or (3 if q else 10), len=ln or (50 if q else 120),
                        useed=seed + i, batevery=(3 if q else 2)))
    return st


def check_C01(work, prop, tier, seed, t0):
    q = tier == "quick"
    extra = coll_stages(tier, "search") + comp_stages(tier, seed, "search")
    # the known finding D2 lives only here: byte-string keys k and k||0x00||s
    extra.append(Stage("random", "alpha/string", "d2", "q", "search", n=(12 if q else 60), len=10))
    extra.append(Stage("random", "alpha/bytes", "d2", "q", "search", n=(6 if q else 30), len=10))
    stages = std_stages(tier, seed, "search", extra=extra)
    return tree_check(work, prop, tier, seed, t0, stages, PROP_INVS[prop],
                      ["SearchOK", "DeleteResOK", "LeavesOK"], RULE_TREE,
                      model_props=["OverwriteKeepsShape", "FailedDeleteIsNoop"], drift=True)


def check_C02(work, prop, tier, seed, t0):
    bat = "iter,iterof=All+Backward"
    extra = coll_stages(tier, bat) + comp_stages(tier, seed, bat)
    stages = std_stages(tier, seed, bat, extra=extra)
    return tree_check(work, prop, tier, seed, t0, stages, PROP_INVS[prop], ["AllOK", "BackwardOK"], RULE_TREE, model_props=[])


def check_C03(work, prop, tier, seed, t0):
    q = tier == "quick"
    # all bound pairs after every transition only on the small closed universe; sampled pairs elsewhere
    # (measured: all pairs x every transition of the 13-key universes is > 10^8 calls / 60 GB of traces)
    bat = "range=40,iterof=Range" if q else "range=100,iterof=Range"
    stages = std_stages(tier, seed, bat, closed=("range", "split"), fan=False,
                        extra=comp_stages(tier, seed, bat) +
                        [Stage("sim", "uint8", "fan1", "q", "range=30", num=(1 if q else 6), depth=(480 if q else 1000),
                               ramp=True, invs=["SizeOK"], every=False),
                         Stage("sim", "uint8", "fan1", "q", "range=30", num=(1 if q else 6), depth=(480 if q else 1000),
                               ramp=True, invs=["SizeOK"], every=False, start_full=True)])
    if not q:
        stages.append(Stage("model", "alpha/string", "range", "q", "range=-1"))
        stages.append(Stage("model", "uint32", "fixedq", "q", "range=-1"))
    # Range on an empty tree, every bound pair
    stages.append(Stage("random", "alpha/string", "range", "q", "range=-1", n=1, len=0))
    stages.append(Stage("random", "float64", "random", "q", "range=-1", n=1, len=0))
    # bounds passed as caller-owned byte slices: adjacent fields of one record, sub-slices with spare capacity, scanner buffer
    for u in ("range", "random"):
        stages.append(Stage("arena", "alpha/bytes", u, "q", "range=%d" % (14 if q else 40), n=(4 if q else 16), len=(40 if q else 90)))
    return tree_check(work, prop, tier, seed, t0, stages, PROP_INVS[prop], ["RangeOK"], RULE_TREE, model_props=[])


def check_C04(work, prop, tier, seed, t0):
    q = tier == "quick"
    size = "q" if q else "t"
    bat = "prefix=-1,iterof=Prefix"
    st = [Stage("model", "alpha/string", "prefix", size, bat), Stage("model", "alpha/string", "split", size, bat),
          Stage("model", "alpha/bytes", "long", size, bat),
          Stage("sim", "alpha/string", "fan1x", size, "prefix=8", num=(1 if q else 6), depth=(480 if q else 1000), ramp=True,
                invs=["SizeOK"], every=False),
          Stage("sim", "alpha/string", "fan1x", size, "prefix=8", num=(1 if q else 6), depth=(480 if q else 1000), ramp=True,
                invs=["SizeOK"], every=False, start_full=True),
          Stage("sim", "alpha/bytes", "fan2", size, "prefix=-1", num=(2 if q else 8), depth=(200 if q else 400), ramp=True,
                invs=["SizeOK"], every=False),
          Stage("model", "collation/string/und", "textq", "q", bat)]
    st.append(Stage("arena", "alpha/bytes", "prefix", "q", "prefix=6", n=(3 if q else 12), len=(40 if q else 90)))
    # branch points below a compressed path LONGER than the inline limit (the comparison consults a leaf): closed for 6
    # continuations; 20 continuations churned inside the 48-slot class with the smallest / largest child deleted eagerly
    st.append(Stage("model", "alpha/string", "lfan", size, bat))
    st.append(Stage("sim", "alpha/string", "lfan20", size, bat, num=(2 if q else 8), depth=(260 if q else 520), ramp=True,
                    invs=["SizeOK"], every=False, batevery=1, protect=False, fillcap=20, floor=14))
    st.append(Stage("sim", "alpha/bytes", "lfan20", size, bat, num=(1 if q else 6), depth=(260 if q else 520), ramp=True,
                    invs=["SizeOK"], every=False, batevery=2))
    st.append(Stage("suite", "suite", "repository-tests", size, bat, max=(1500 if q else 0), proj=(3 if q else 6)))
    for k in ["alpha/string", "alpha/bytes"]:
        st.append(Stage("random", k, "random", size, bat, n=(6 if q else 40), len=(50 if q else 120), batevery=2))
        st.append(Stage("random", k, "prefix", size, bat, n=(4 if q else 20), len=(40 if q else 100), batevery=2))
    # collation: text without contractions / ignorables under the root collator
    for k in ["collation/string/und", "collation/bytes/und", "collation/runes/und"]:
        st.append(Stage("random", k, "text", size, bat, n=(3 if q else 12), len=(60 if q else 150), batevery=3))
    return tree_check(work, prop, tier, seed, t0, st, PROP_INVS[prop], ["PrefixOK"], RULE_TREE, model_props=[])


def check_C05(work, prop, tier, seed, t0):
    bat = "minmax,topk,iterof=TopK+BottomK"
    extra = coll_stages(tier, bat) + comp_stages(tier, seed, bat)
    stages = std_stages(tier, seed, bat, extra=extra)
    return tree_check(work, prop, tier, seed, t0, stages, PROP_INVS[prop], ["MinMaxOK", "TopBottomOK"], RULE_TREE, model_props=[])


def check_C06(work, prop, tier, seed, t0):
    bat = "iter"
    extra = coll_stages(tier, bat) + comp_stages(tier, seed, bat)
    stages = std_stages(tier, seed, bat, extra=extra)
    return tree_check(work, prop, tier, seed, t0, stages, PROP_INVS[prop], ["SizeOK"], RULE_TREE, model_props=["SizeStep"])


def check_C11(work, prop, tier, seed, t0):
    bat = "dump"
    extra = coll_stages(tier, bat) + comp_stages(tier, seed, bat)
    stages = std_stages(tier, seed, bat, extra=extra)
    return tree_check(work, prop, tier, seed, t0, stages, PROP_INVS[prop],
                      ["WFOK", "ShapeOK", "LeavesOK", "NormalOK", "SizeOK"], RULE_TREE, model_props=[], drift=True,
                      extra_cov={"want_model_coverage": tier == "thorough"})


def check_C14(work, prop, tier, seed, t0):
    q = tier == "quick"
    bat = "iterchk=%d" % (6 if q else 12)
    extra = coll_stages(tier, bat) + comp_stages(tier, seed, bat)
    stages = std_stages(tier, seed, bat, extra=extra, closed=("split", "range"))
    # sequences whose bounds / prefix live in buffers the caller reuses between creation, passes and lookups
    stages.append(Stage("arena", "alpha/bytes", "range", "q", bat, n=(3 if q else 10), len=(40 if q else 90)))
    stages.append(Stage("arena", "collation/bytes/und", "text", "q", bat, n=(2 if q else 8), len=(40 if q else 90)))
    import venv
    return tree_check(work, prop, tier, seed, t0, stages, PROP_INVS[prop], ["ReiterOK", "TopBottomOK"], RULE_TREE, model_props=[],
                      extra_cov={"iteration_protocol_model": venv.iter_model(work)})


def check_C15(work, prop, tier, seed, t0):
    bat = "all"
    extra = coll_stages(tier, bat) + comp_stages(tier, seed, bat)
    q = tier == "quick"
    stages = std_stages(tier, seed, bat, extra=extra, model_kinds=["alpha/string"])
    # queries whose []byte arguments live in caller buffers or are re-slices of keys the tree yielded earlier
    stages.append(Stage("arena", "alpha/bytes", "random", "q", "all", n=(3 if q else 10), len=(40 if q else 100)))
    stages.append(Stage("arena", "alpha/bytes", "prefix", "q", "all", n=(2 if q else 8), len=(40 if q else 100)))
    for s in stages:
        if s.typ == "model":
            s.kw["prebattery"] = True   # reads interleaved before the last step as well: they must not affect it
    if q:
        for s in stages:
            if s.typ == "model":
                s.kw["cap"] = 6000
    import venv
    return tree_check(work, prop, tier, seed, t0, stages, PROP_INVS[prop], ["SearchOK"], RULE_TREE,
                      model_props=["OverwriteKeepsShape", "FailedDeleteIsNoop"],
                      extra_cov={"queries_transparent_model": [venv.env_model(work), venv.env_proof(work)]})


def check_C08(work, prop, tier, seed, t0):
    q = tier == "quick"
    bat = "search,iter,minmax,dump,rangec=6"
    st = coll_stages(tier, bat, n=(6 if q else 25), ln=(70 if q else 200))
    st.append(Stage("suite", "suite", "repository-tests", "q" if q else "t", bat, max=(1500 if q else 0), proj=(3 if q else 6)))
    st.append(Stage("model", "collation/bytes/sv", "textq", "q", bat))
    st.append(Stage("model", "collation/runes/und", "textq", "q", bat))
    # byte-slice keys handed over in buffers the caller reuses afterwards: the tree must keep what was inserted
    for k in (["collation/bytes/und"] if q else ["collation/bytes/und", "collation/bytes/sv", "collation/bytes/en-num"]):
        st.append(Stage("arena", k, "text", "q", "search,iter,minmax", n=(3 if q else 10), len=(50 if q else 120)))
    return tree_check(work, prop, tier, seed, t0, st, PROP_INVS[prop],
                      ["SearchOK", "DeleteResOK", "AllOK", "BackwardOK", "WFOK", "SizeOK"], RULE_TREE, model_props=[], drift=True)


def check_C09(work, prop, tier, seed, t0):
    q = tier == "quick"
    bat = "search,iter,minmax,topk,range=%d,dump" % (20 if q else 60)
    st = comp_stages(tier, seed, bat, n=(5 if q else 15), ln=(60 if q else 150))
    st.append(Stage("suite", "suite", "repository-tests", "q" if q else "t", bat, max=(1500 if q else 0), proj=(3 if q else 6)))
    return tree_check(work, prop, tier, seed, t0, st, PROP_INVS[prop],
                      ["SearchOK", "DeleteResOK", "AllOK", "BackwardOK", "RangeOK", "MinMaxOK", "WFOK", "SizeOK"], RULE_TREE,
                      model_props=[], extra_cov={"programs": (4 if q else 20)})


CHECKS = {
    "C01": check_C01, "C02": check_C02, "C03": check_C03, "C04": check_C04, "C05": check_C05, "C06": check_C06,
    "C08": check_C08, "C09": check_C09, "C11": check_C11, "C14": check_C14, "C15": check_C15,
}


# ---- C10: inner nodes ------------------------------------------------------------------

def split_at(path, marker, max_bytes):
    """Split a trace whose segments start with `marker` lines and need no header."""
    if os.path.getsize(path) <= max_bytes:
        return [path]
    out, part, size, n = [], None, 0, 0
    with open(path) as f:
        for ln in f:
            if part is None or (size >= max_bytes and ln.startswith(marker)):
                if part:
                    part.close()
                fn = "%s.p%d" % (path, n)
                n += 1
                out.append(fn)
                part = open(fn, "w")
                size = 0
            part.write(ln)
            size += len(ln)
    if part:
        part.close()
    os.remove(path)
    return out


def write_mc_node(work, name, alphabet, emit, guard=True, unsigned=True):
    mod = "MC_" + name
    with open(os.path.join(work.specdir, mod + ".tla"), "w") as f:
        f.write("---- MODULE %s ----\nEXTENDS ArtNode\nMCAlphabet == {%s}\nMCProbes == 0..255\n====\n" % (
            mod, ", ".join(str(x) for x in alphabet)))
    with open(os.path.join(work.specdir, mod + ".cfg"), "w") as f:
        f.write("CONSTANTS\n Alphabet <- MCAlphabet\n Probes <- MCProbes\n EmitEdges = %s\n GuardFill = %s\n Unsigned16 = %s\n" % (
            "TRUE" if emit else "FALSE", "TRUE" if guard else "FALSE", "TRUE" if unsigned else "FALSE"))
        f.write("INIT Init\nNEXT Next\nVIEW View\nINVARIANTS LookupOK CountOK EnumOK ClassOK\nCHECK_DEADLOCK FALSE\n")
    return mod


def check_C10(work, prop, tier, seed, t0):
    q = tier == "quick"
    drive = build_harness(work)
    # amd64 assembly and the portable fallback (node16_other.go, compiled for GOARCH=386)
    variants = [("amd64", drive), ("386-portable", build_harness(work, "386"))]
    alphabet = [0, 1, 2, 126, 127, 128, 129, 254, 255] if q else [0, 1, 2, 64, 126, 127, 128, 129, 200, 253, 254, 255]
    mod = write_mc_node(work, "node", alphabet, emit=True)
    edges = work.path("node-edges.ndjson")
    r = run_model(work, mod, edges, workers=8, timeout=3000)
    if r.violation or not r.ok:
        raise Infra("ArtNode model: %s %s" % (r.violation, r.error or r.out_tail))
    with open(edges) as f:
        lines = sorted(set(f.readlines()))
    with open(edges, "w") as f:
        f.writelines(lines)
    model_runs = [{"stage": "model:ArtNode", "alphabet": alphabet, "states": r.states, "transitions": r.transitions,
                   "emitted": len(lines), "wall_s": round(r.wall, 1)}]
    # the raw-lane model implements the node abstraction of the tree model (L2 refines L1), same alphabet
    with open(os.path.join(work.specdir, "MC_noderef.tla"), "w") as f:
        f.write("---- MODULE MC_noderef ----\nEXTENDS ArtNodeRefines\nMCAlphabet == {%s}\nMCProbes == 0..255\n====\n" % ", ".join(map(str, alphabet)))
    with open(os.path.join(work.specdir, "MC_noderef.cfg"), "w") as f:
        f.write("CONSTANTS\n Alphabet <- MCAlphabet\n Probes <- MCProbes\n EmitEdges = FALSE\n GuardFill = TRUE\n Unsigned16 = TRUE\n"
                "INIT RInit\nNEXT RNext\nVIEW RView\nINVARIANTS Refines CollapseOK\nCHECK_DEADLOCK FALSE\n")
    rr = run_model(work, "MC_noderef", work.path("none2.ndjson"), workers=4, timeout=1800)
    if rr.violation or not rr.ok:
        raise Infra("ArtNode does not refine the L1 node abstraction: %s %s" % (rr.violation, rr.error or rr.out_tail[-500:]))
    model_runs.append({"stage": "model:ArtNodeRefines (L2 node implements L1 node)", "states": rr.states, "transitions": rr.transitions,
                       "wall_s": round(rr.wall, 1)})
    files, total_lines, total_ops, segs, samples, kinds = [], 0, 0, 0, [], {}
    for vname, drv in variants:
        tr = work.path("node-%s.ndjson" % vname)
        stf = work.path("node-%s.json" % vname)
        run_drive(drv, ["node", "-in", edges, "-out", tr, "-seed", str(seed), "-walks", str(6 if q else 24), "-stats", stf])
        s = json.load(open(stf))
        total_lines += s["lines"]; total_ops += s["ops"]; segs += s["segments"]
        for k, v in (s.get("extra") or {}).items():
            kinds[vname + ":" + k] = v
        samples += [{"variant": vname, "transition": x} for x in s.get("samples", [])[:2]]
        files += split_at(tr, '{"op":"nreset"', 3 << 20)
        pr = work.path("prims-%s.ndjson" % vname)
        stp = work.path("prims-%s.json" % vname)
        run_drive(drv, ["prims", "-out", pr, "-seed", str(seed), "-size", "q" if q else "t", "-parts", "16", "-stats", stp])
        s = json.load(open(stp))
        total_lines += s["lines"]; total_ops += s["ops"]
        files += ["%s.%d" % (pr, i) for i in range(16)]
    t1 = time.time()
    vres = validate_many(work, files, ["Inv_C10"], module="TraceNode")
    log("validated %d node trace files (%d lines) in %.1fs" % (len(files), total_lines, time.time() - t1))
    violations = 0
    for v in vres:
        if v.error:
            raise Infra("trace validation of %s: %s" % (os.path.basename(v.file), v.error))
        if v.invariant:
            # node traces are deterministic functions of their input: re-run the same command in a fresh process
            with open(v.file) as f:
                lines_ = f.readlines()[:v.line]
            start = max([i for i, ln in enumerate(lines_) if ln.startswith('{"op":"nreset"')] or [0])
            seg = lines_[start:] if lines_[-1].startswith('{"op":"A"') or lines_[-1].startswith('{"op":"R"') else [lines_[-1]]
            path = save_replay(prop, seg)
            st2, info = confirm_node(work, drive if "386" not in v.file else variants[-1][1], path)
            if st2 == "confirmed":
                print("VIOLATION property=%s replay=%s" % (prop, path), flush=True)
                e = json.loads(seg[-1])
                print("  %s fails at: %s" % (v.invariant, json.dumps({k: e[k] for k in e if k in ("op", "b", "kind", "n", "w", "pan")})), flush=True)
                violations = 1
                break
            os.remove(path)
            # the segment alone is right in a fresh process: the failure needs what the process did to the shared node pool
            # before it. Re-execute everything the process had done up to that line (this part of its trace, then all parts).
            confirmed = False
            base = re.sub(r"\.p\d+$", "", v.file)
            parts = sorted([f for f in files if f == base or f.startswith(base + ".p")], key=lambda f: int(f.rsplit(".p", 1)[1]) if ".p" in f[len(base):] else 0)
            for scope in ("part", "process"):
                if scope == "part":
                    hist = lines_
                else:
                    hist = []
                    for f in parts:
                        if f == v.file:
                            break
                        hist += open(f).readlines()
                    hist += lines_
                path = save_replay(prop, hist)
                st2, info = confirm_node(work, drive if "386" not in v.file else variants[-1][1], path)
                if st2 == "confirmed":
                    print("VIOLATION property=%s replay=%s" % (prop, path), flush=True)
                    e = json.loads(seg[-1])
                    print("  %s fails at: %s (only after the earlier node histories of the same process: shared pool state)" % (
                        v.invariant, json.dumps({k: e[k] for k in e if k in ("op", "b", "kind", "n", "w", "pan")})), flush=True)
                    violations = 1
                    confirmed = True
                    break
                os.remove(path)
            if confirmed:
                break
            raise Infra("node violation did not reproduce: %s" % info)
    # conformance of the raw-lane model itself: ArtNode stepped next to random ramps of the real node (informative)
    node_drift = None
    if not violations:
        wt = work.path("node-walks.ndjson")
        run_drive(drive, ["node", "-out", wt, "-seed", str(seed + 7), "-walks", str(6 if q else 18), "-stats", work.path("node-walks.json")])
        wfiles = split_at(wt, '{"op":"nreset"', 1 << 20)
        dres = validate_many(work, wfiles, ["NodeDriftFree"], module="TraceNodeDrift", spec="DriftSpec")
        node_drift = {"files": len(wfiles), "steps": sum(x.states for x in dres), "drift_free": all(x.ok for x in dres)}
        for x in dres:
            if x.invariant:
                node_drift["first_drift"] = "%s line %s" % (os.path.basename(x.file), x.line)
                break
            if x.error:
                node_drift["error"] = x.error[-300:]
                break
    # the 4/16/48/256-slot probes are also INLINED in Search of the generated trees and of the hand-written collation
    # tree: drive them through real trees whose nodes carry stale lanes (full node, largest / smallest child removed, ...)
    tree_out = None
    if not violations:
        size = "q" if q else "t"
        tstages = []
        for kind, u, d in (("alpha/string", "fan18", 300), ("uint8", "fan16", 260), ("collation/string/und", "han", 260),
                           ("collation/string/und", "greek16", 220), ("alpha/bytes", "fan16", 260),
                           ("alpha/bytes", "fanb", 200), ("compound/i8+u16", "tuplefan", 480)):
            tstages.append(Stage("sim", kind, u, size, "search", num=(2 if q else 8), depth=(d if q else 2 * d), ramp=True,
                                 invs=["SizeOK"], every=False, batevery=(1 if u in ("fan18", "fan16", "greek16") else 4), start_full=(u == "tuplefan")))
        tstages.append(Stage("sim", "uint8", "fan16", size, "search", num=(2 if q else 8), depth=(260 if q else 520), ramp=True,
                             invs=["SizeOK"], every=False, batevery=1, protect=False))
        tstages.append(Stage("sim", "collation/string/und", "greek16", size, "search", num=(2 if q else 8), depth=(220 if q else 440), ramp=True,
                             invs=["SizeOK"], every=False, batevery=1, protect=False))
        # full at 16 out of a larger alphabet, drained to 2, refilled with other bytes (stale lanes meet larger / in-between bytes)
        for kind, u in (("uint8", "fan1"), ("alpha/bytes", "fan64"), ("int8", "fan64")):
            tstages.append(Stage("sim", kind, u, size, "search", num=(2 if q else 8), depth=(300 if q else 600), ramp=True,
                                 invs=["SizeOK"], every=False, batevery=1, protect=False, fillcap=16, floor=2))
        tstages.append(Stage("model", "collation/string/und", "textq", "q", "search"))
        tstages.append(Stage("model", "alpha/string", "split", "q", "search"))
        tree_out = tree_pipeline(work, prop, tstages, ["Inv_C01"], seed, model_invs=["SearchOK"], model_props=[], drive=drive)
        v2, _ = handle_violations(work, drive, prop, tree_out, ["Inv_C01"])
        violations += v2
        total_lines += tree_out.trace_lines
        total_ops += tree_out.ops
        segs += tree_out.segments
        model_runs += tree_out.model_runs
    cov = {"states": r.states, "transitions": r.transitions, "traces_validated_against_impl": segs,
           "samples": samples or [{"note": "none"}], "evaluations": total_ops, "distinct_nontrivial": len(lines),
           "rule": "closure of all add/remove sequences of the ArtNode model over the boundary alphabet (one test per transition, replayed "
                   "on a real node handle, all 256 probes + both enumerations after the step); random ramps to 256 children and back; "
                   "primitive sweeps over crafted lanes (4-slot: all words over the alphabet x fill 0..4; 16-slot: fill x lane x value) "
                   "with 256 probes each; distinct_nontrivial = distinct model transitions replayed",
           "trace_lines_validated_by_TLC": total_lines, "model_runs": model_runs, "node_states_by_class": kinds,
           "variants": [v for v, _ in variants], "exhaustive": False,
           "model_drift_ArtNode_vs_real_raw_lanes": node_drift}
    write_evidence(prop, tier, seed, "model_checking", cov, time.time() - t0, violations, ASSUME_BASE + [
        "node16_arm64.s cannot be executed in this sandbox (no arm64 emulator): only amd64 assembly and (thorough) the portable fallback under GOARCH=386 are bound",
        "insertPosNode4 is specified as first-greater-or-equal over all four lanes (the code's actual contract), insertPosNode16 as first-greater within the fill count"])
    if violations:
        return 1
    print("%s held: %d model states / %d transitions, %d node histories, %d probe results, %d trace lines validated" % (
        prop, r.states, r.transitions, segs, total_ops, total_lines), flush=True)
    return 0


def confirm_node(work, drive, path):
    new = work.fresh("noderun") + ".ndjson"
    p = run_drive(drive, ["noderun", "-in", path, "-out", new], allow_fail=True)
    if p.returncode != 0:
        return ("confirmed", "driver crashed: " + p.stderr[-800:])
    v = validate_trace(work, new, ["Inv_C10"], module="TraceNode")
    if v.invariant:
        return ("confirmed", v.invariant)
    if v.error:
        raise Infra(v.error)
    return ("unreproduced", None)


CHECKS["C10"] = check_C10
PROP_INVS["C10"] = ["Inv_C10"]


# ---- C07: numeric encodings ----------------------------------------------------------------

def check_C07(work, prop, tier, seed, t0):
    q = tier == "quick"
    drive = build_harness(work)
    # (a) the design, exhaustively for the 8-bit types / minifloat and 16-bit adjacent pairs
    r = run_model(work, "MC_Codec", work.path("none.ndjson"), workers=4, timeout=1800)
    if r.violation or not r.ok:
        raise Infra("Codec model: %s %s" % (r.violation, r.error or r.out_tail))
    model_runs = [{"stage": "model:Codec", "checked": "all pairs of u8, i8, f8 (1-4-3 minifloat); all adjacent pairs of u16, i16",
                   "states": r.states, "transitions": r.transitions, "wall_s": round(r.wall, 1)}]
    # (a') the design over the integers, for every width: TLAPS proof of CodecInt (order isomorphism, round trip)
    model_runs.append(tlaps_codecint(work))
    # (b) the real Transform/Restore
    variants = [("amd64", drive)] + ([] if q else [("386", build_harness(work, "386"))])
    files, recs, lines, batches, samples = [], 0, 0, 0, []
    for vname, drv in variants:
        out = work.path("codec-%s.ndjson" % vname)
        stf = work.path("codec-%s.json" % vname)
        codec_args = ["codec", "-seed", str(seed), "-nrand", str(6000 if q else 100000), "-tuples", str(6 if q else 30), "-parts", "16"]
        run_drive(drv, codec_args + ["-out", out, "-stats", stf])
        s = json.load(open(stf))
        recs += s["ops"]; lines += s["lines"]; batches += s["segments"]
        samples += [{"variant": vname, "pattern": x} for x in s.get("samples", [])]
        files += ["%s.%d" % (out, i) for i in range(16)]
    files = [f for f in files if os.path.getsize(f) > 0]
    t1 = time.time()
    vres = validate_many(work, files, ["WellSorted", "Inv_C07"], module="TraceCodec")
    log("validated %d codec trace files (%d records) in %.1fs" % (len(files), recs, time.time() - t1))
    violations = 0
    for v in vres:
        if v.error:
            raise Infra("trace validation of %s: %s" % (os.path.basename(v.file), v.error))
        if v.invariant == "WellSorted":
            raise Infra("codec batch not sorted by the specification's order (harness oracle and Codec!ValueLess disagree) at %s:%s" % (v.file, v.line))
        if v.invariant:
            with open(v.file) as f:
                ls = f.readlines()
            seg = ls[max(0, v.line - 2):v.line]
            if seg[-1].startswith('{"op":"batch"'):
                seg = seg[-1:]
            elif len(seg) == 2 and not seg[0].startswith('{"op":"cont"'):
                pass
            path = save_replay(prop, seg)
            drv = variants[-1][1] if "386" in v.file else drive
            st2 = confirm_codec(work, drv, path)
            if st2 == "confirmed":
                print("VIOLATION property=%s replay=%s" % (prop, path), flush=True)
                e = json.loads(seg[-1])
                print("  Inv_C07 fails in a batch of type %s (width %d)" % (e["ty"], e["w"]), flush=True)
                violations = 1
                break
            os.remove(path)
            # the batch alone is right in a fresh process: the failure needs what the process did before it (an encoder or
            # decoder that keeps state). Run the whole command again in a fresh process.
            import venv
            variant = "386" if "386" in v.file else "plain"
            job = venv.run_job(work, venv.Job("codec:%s" % variant, variant, codec_args, pattern=".[0-9]*"), "confirm")
            again = [x for x in validate_many(work, [f for f in job.trace_files if os.path.getsize(f) > 0], ["Inv_C07"], module="TraceCodec") if x.invariant]
            if job.rc != 0 or again:
                rep = {"property": prop, "variant": variant, "args": codec_args, "env": {}, "pattern": ".[0-9]*", "invariants": ["Inv_C07"],
                       "module": "TraceCodec", "kind": "inv", "label": "codec:%s" % variant, "invariant": v.invariant}
                os.makedirs(REPLAY_DIR, exist_ok=True)
                path = os.path.join(REPLAY_DIR, "%s-%s.cmd.json" % (prop, hashlib.md5(json.dumps(rep, sort_keys=True).encode()).hexdigest()[:12]))
                json.dump(rep, open(path, "w"), indent=1)
                print("VIOLATION property=%s replay=%s" % (prop, path), flush=True)
                e = json.loads(seg[-1])
                print("  Inv_C07 fails in a batch of type %s (width %d); the batch alone is right in a fresh process: encoder/decoder state" % (e["ty"], e["w"]), flush=True)
                violations = 1
                break
            raise Infra("codec violation did not reproduce")
    # conformance to the transcribed design (informative only)
    design = None
    if not violations:
        dv = validate_many(work, files[:4], ["Design_C07"], module="TraceCodec")
        design = all(x.ok for x in dv)
    cov = {"states": r.states, "transitions": r.transitions, "traces_validated_against_impl": batches,
           "samples": samples or [{"note": "none"}], "evaluations": recs, "distinct_nontrivial": recs,
           "rule": "per type: all 2^8 / 2^16 patterns of the 8/16-bit types; for 32/64-bit and floats products of boundary bytes at all "
                   "byte positions, +-2 neighbours of every special (zeros, subnormal edges, max finite, infinities, NaN payloads, type "
                   "min/max) and seeded random patterns; de-duplicated, sorted by the oracle; every record and every adjacent pair judged "
                   "by TLC; distinct_nontrivial = distinct bit patterns encoded",
           "trace_lines_validated_by_TLC": lines, "model_runs": model_runs, "variants": [v for v, _ in variants],
           "encoder_equals_transcribed_design": design, "exhaustive": False,
           "exhaustive_for": "8-bit and 16-bit types (real code); 8-bit types and 1-4-3 minifloat (design, all pairs)"}
    write_evidence(prop, tier, seed, "model_checking", cov, time.time() - t0, violations, ASSUME_BASE + [
        "32/64-bit domains are covered by structured and random batches, not exhaustively",
        "the oracle order is Go's native < on the decoded values and the float order of the statement; TLC re-derives it on bit patterns (WellSorted) before judging"])
    if violations:
        return 1
    print("%s held: design exhaustive for 8-bit types (TLC), %d real records in %d batches validated" % (prop, recs, batches), flush=True)
    return 0


def tlaps_codecint(work):
    """Machine-checked proof that the design is an order isomorphism for every width. Informative for C07
    (the verdict about the CODE comes from the traces); a failure of the prover is reported, not fatal."""
    import subprocess, re
    t1 = time.time()
    d = work.path("tlaps")
    os.makedirs(d, exist_ok=True)
    shutil.copy(os.path.join(work.specdir, "CodecInt.tla"), d)
    try:
        p = subprocess.run(["tlapm", "--threads", "8", "CodecInt.tla"], cwd=d, capture_output=True, text=True, timeout=600)
        out = p.stdout + p.stderr
        m = re.search(r"All (\d+) obligations? proved", out)
        if m:
            return {"stage": "proof:CodecInt (tlapm)", "obligations": int(m.group(1)), "discharged": int(m.group(1)),
                    "theorems": ["SignedIso", "FloatIso", "SpecialsOutside", "FloatRoundTrip"], "wall_s": round(time.time() - t1, 1)}
        m = re.search(r"(\d+)/(\d+) obligations? failed", out)
        return {"stage": "proof:CodecInt (tlapm)", "result": "not all obligations proved", "tail": out[-300:], "wall_s": round(time.time() - t1, 1)}
    except Exception as e:
        return {"stage": "proof:CodecInt (tlapm)", "result": "prover did not run: %s" % e}


def confirm_codec(work, drive, path):
    new = work.fresh("codecrun") + ".ndjson"
    p = run_drive(drive, ["codecrun", "-in", path, "-out", new], allow_fail=True)
    if p.returncode != 0:
        return "confirmed"
    v = validate_trace(work, new, ["Inv_C07"], module="TraceCodec")
    if v.error:
        raise Infra(v.error)
    return "confirmed" if v.invariant else "unreproduced"


CHECKS["C07"] = check_C07
PROP_INVS["C07"] = ["Inv_C07"]
