"""Per-property check procedures."""
import json, os, shutil, time, hashlib, random
from vcommon import *
from vmodel import *
from vtree import *

SIMPLE_KINDS = ["alpha/string", "alpha/bytes", "uint8", "uint16", "uint32", "uint64", "uint",
                "int8", "int16", "int32", "int64", "int", "float32", "float64"]
COLL_KINDS_Q = ["collation/string/und", "collation/bytes/sv", "collation/runes/und", "collation/string/en-num"]
COLL_KINDS_T = ["collation/%s/%s" % (kt, c) for kt in ("string", "bytes") for c in
                ("und", "sv", "de", "es", "da", "fr", "en-num", "und-num")] + ["collation/runes/und"]

ASSUME_BASE = [
    "TLC, SANY, the JVM and the Go toolchain are trusted",
    "the harness's oracle comparators (bytes.Compare, native <, float order of the statement, collator.Compare, "
    "field-wise tuple compare) assign the ranks; the library's encoders are never used for ranks",
    "the read-only verif-tagged walker reports the structure faithfully (cross-checked: leaves vs Present(m), size)",
    "closed exploration is exhaustive only for the listed small universes; beyond them simulation and random histories sample",
]


def rand_schemas(seed, n):
    r = random.Random(seed)
    names = ["u8", "u16", "u32", "u64", "i8", "i16", "i32", "i64", "f32", "f64"]
    out = []
    for _ in range(n):
        k = r.randint(1, 4)
        fs = [r.choice(names) for _ in range(k)]
        if r.random() < 0.4:
            fs[-1] = "str"
        out.append("compound/" + "+".join(fs))
    return out


# ---- violation handling -------------------------------------------------------------

def save_replay(prop, seg_lines):
    os.makedirs(os.path.join(VERIF, "replays"), exist_ok=True)
    hid = hashlib.md5("".join(seg_lines).encode()).hexdigest()[:12]
    path = os.path.join(VERIF, "replays", "%s-%s.ndjson" % (prop, hid))
    with open(path, "w") as f:
        f.writelines(seg_lines)
    return path


def confirm(work, drive, replay_path, invariants):
    """Re-execute the recorded calls in a fresh process and re-validate."""
    new = work.fresh("rerun") + ".ndjson"
    p = run_drive(drive, ["rerun", "-in", replay_path, "-out", new], allow_fail=True)
    if p.returncode != 0:
        # the driver itself died (fatal runtime error, not a recoverable panic): that is a verdict in itself
        return ("crash", p.stderr[-1500:])
    v = validate_trace(work, new, invariants)
    if v.invariant:
        return ("confirmed", v.invariant)
    if v.error:
        return ("error", v.error)
    return ("unreproduced", None)


def describe_line(seg_lines):
    e = json.loads(seg_lines[-1])
    for k in ("dump", "u", "raw"):
        e.pop(k, None)
    if e.get("op") == "Batch":
        e["items"] = ["%d read-only calls" % len(e["items"])]
    return json.dumps(e)[:400]


def handle_violations(work, drive, prop, out, invariants):
    """Returns (violations, known). A violation is reported only after it reproduced in a fresh process."""
    known = []
    # traces lying inside the signature of a known finding: show that the finding is still there
    for kf in out.known_files:
        v = validate_trace(work, kf, invariants)
        if v.error:
            raise Infra("trace validation: " + v.error)
        if not v.invariant:
            continue
        seg = extract_segment(kf, v.line)
        replay_path = save_replay(prop, seg)
        status, info = confirm(work, drive, replay_path, invariants)
        k = match_known(prop, seg)
        os.remove(replay_path)
        if status in ("confirmed", "crash") and k and k["id"] not in [x[0] for x in known]:
            msg = "KNOWN-FINDING: property=%s %s (%s at: %s)" % (prop, k["what"], v.invariant, describe_line(seg))
            print(msg, flush=True)
            known.append((k["id"], msg))
    if not out.violation:
        return 0, known
    inv, file, line = out.violation
    seg = extract_segment(file, line)
    replay_path = save_replay(prop, seg)
    status, info = confirm(work, drive, replay_path, invariants)
    if status in ("confirmed", "crash"):
        print("VIOLATION property=%s replay=%s" % (prop, replay_path), flush=True)
        print("  invariant %s fails at: %s" % (inv, describe_line(seg)), flush=True)
        return 1, known
    os.remove(replay_path)
    if status == "unreproduced":
        raise Infra("violation of %s at %s:%d did not reproduce in a fresh process" % (inv, file, line))
    raise Infra("could not confirm violation: %s" % info)


def remainder_after(file, line):
    """A trace file holding what follows the segment containing `line` (None if nothing)."""
    with open(file) as f:
        lines = f.readlines()
    head = lines[0]
    nxt = None
    for i in range(line, len(lines)):
        if lines[i].startswith('{"op":"clear"') or lines[i].startswith('{"op":"new"'):
            nxt = i
            break
    if nxt is None:
        return None
    rest = file + ".rest%d" % line
    with open(rest, "w") as f:
        if lines[nxt].startswith('{"op":"new"'):
            f.writelines(lines[nxt:])
        else:
            f.write(head)
            f.writelines(lines[nxt + 1:])
    return rest


def replay(work, prop, path):
    drive = build_harness(work)
    invs = PROP_INVS.get(prop, ["Inv_" + prop])
    status, info = confirm(work, drive, path, invs)
    if status in ("confirmed", "crash"):
        seg = open(path).readlines()
        k = match_known(prop, seg)
        if k:
            print("KNOWN-FINDING: property=%s %s" % (prop, k["what"]))
            return 0
        print("VIOLATION property=%s replay=%s" % (prop, path))
        print("  %s" % info)
        return 1
    if status == "unreproduced":
        print("replay of %s: the recorded calls now satisfy %s" % (path, ", ".join(invs)))
        return 0
    raise Infra(str(info))


# ---- generic tree check ---------------------------------------------------------------

def finish(prop, tier, seed, t0, out, violations, known, level, rule, invariants, extra_cov=None, assumptions=None):
    cov = {
        "states": out.model_states, "transitions": out.model_transitions,
        "traces_validated_against_impl": out.segments,
        "samples": out.samples or [{"note": "no history sampled"}],
        "evaluations": out.ops,
        "distinct_nontrivial": out.digests,
        "rule": rule,
        "trace_lines_validated_by_TLC": out.trace_lines,
        "trace_invariants": invariants,
        "model_runs": out.model_runs,
        "kinds": sorted(out.kinds),
        "known_findings_reported": [k[0] for k in known],
        "notes": out.notes,
        "exhaustive": False,
    }
    if extra_cov:
        cov.update(extra_cov)
    if level == "model_checking" and (cov["states"] < 1 or cov["transitions"] < 1):
        level = "exploration"
    write_evidence(prop, tier, seed, level, cov, time.time() - t0, violations, (assumptions or []) + ASSUME_BASE)


def tree_check(work, prop, tier, seed, t0, stages, invariants, model_invs, rule, model_props=None, assumptions=None,
               extra_cov=None, level="model_checking"):
    drive = build_harness(work)
    out = tree_pipeline(work, prop, stages, invariants, seed, model_invs=model_invs, model_props=model_props, drive=drive)
    if out.model_violation:
        # the model with default switches describes the repaired tree; if it breaks its own invariants the
        # model or its configuration is wrong: never a verdict about the code
        raise Infra("model %s violates %s with default switches:\n%s" % out.model_violation)
    violations, known = handle_violations(work, drive, prop, out, invariants)
    finish(prop, tier, seed, t0, out, violations, known, level, rule, invariants, extra_cov, assumptions)
    if violations:
        return 1
    print("%s held: %d model states / %d transitions (TLC), %d real histories, %d calls, %d trace lines validated" % (
        prop, out.model_states, out.model_transitions, out.segments, out.ops, out.trace_lines), flush=True)
    return 0


RULE_TREE = ("every transition of the L1 model over the closed universes (BFS, one test per (state, operation)) is replayed on "
             "real trees; simulation ramps and seeded random histories add fan-outs beyond the closed universes; each "
             "recorded call is one evaluation; distinct_nontrivial = distinct structural digests (values ignored) of real "
             "trees holding >= 2 keys, counted per stage and summed")


def std_stages(tier, seed, battery, closed=("split", "long"), kinds_random=None, fan=True, model_kinds=None,
               rnd_n=None, rnd_len=None, extra=None):
    q = tier == "quick"
    size = "q" if q else "t"
    st = []
    mk = model_kinds or (["alpha/string"] if q else ["alpha/string", "alpha/bytes"])
    for u in closed:
        for k in mk:
            st.append(Stage("model", k, u, size, battery))
    # numeric kinds: closed universes of fixed-width patterns (shape differs per encoding)
    nk = ["uint32", "int16", "float64"] if q else ["uint8", "uint16", "uint32", "uint64", "int8", "int16", "int32", "int64", "float32", "float64"]
    for k in nk:
        st.append(Stage("model", k, "fixedq", size, battery, cap=(4000 if q else None)))
    if fan:
        st.append(Stage("sim", "uint8", "fan1", size, battery, num=(2 if q else 8), depth=(560 if q else 1100), ramp=True,
                        invs=["SizeOK", "AllOK"], every=False))
        st.append(Stage("sim", "alpha/string", "fan2", size, battery, num=(2 if q else 8), depth=(200 if q else 400), ramp=True,
                        invs=["SearchOK", "SizeOK", "AllOK", "WFOK"], every=False))
    kr = kinds_random if kinds_random is not None else SIMPLE_KINDS
    n = rnd_n or (4 if q else 30)
    ln = rnd_len or (50 if q else 120)
    for k in kr:
        st.append(Stage("random", k, "random", size, battery, n=n, len=ln, batevery=(3 if q else 2)))
    if extra:
        st += extra
    return st


PROP_INVS = {
    "C01": ["Inv_C01"], "C02": ["Inv_C02"], "C03": ["Inv_C03"], "C04": ["Inv_C04"], "C05": ["Inv_C05"],
    "C06": ["Inv_C06"], "C11": ["Inv_C11"], "C14": ["Inv_C14"], "C15": ["Inv_C15"],
    "C08": ["Inv_C01", "Inv_C02", "Inv_C05", "Inv_C06", "Inv_C11"],
    "C09": ["Inv_C01", "Inv_C02", "Inv_C03", "Inv_C05", "Inv_C06", "Inv_C11"],
}


def coll_stages(tier, battery, n=None, ln=None):
    q = tier == "quick"
    kinds = COLL_KINDS_Q if q else COLL_KINDS_T
    st = [Stage("model", "collation/string/und", "textq", "q", battery)]
    for k in kinds:
        st.append(Stage("random", k, "text", "q" if q else "t", battery, n=n or (3 if q else 12), len=ln or (60 if q else 150),
                        batevery=(3 if q else 2)))
    return st


def comp_stages(tier, seed, battery, n=None, ln=None):
    q = tier == "quick"
    st = []
    schemas = rand_schemas(seed, 4 if q else 20)
    for i, s in enumerate(schemas):
        if i < (1 if q else 4):
            st.append(Stage("model", s, "tupleq", "q", battery, useed=seed + i))
        st.append(Stage("random", s, "tuple", "q" if q else "t", battery, n=n or (3 if q else 10), len=ln or (50 if q else 120),
                        useed=seed + i, batevery=(3 if q else 2)))
    return st


def check_C01(work, prop, tier, seed, t0):
    q = tier == "quick"
    extra = coll_stages(tier, "search") + comp_stages(tier, seed, "search")
    # the known finding D2 lives only here: byte-string keys k and k||0x00||s
    extra.append(Stage("random", "alpha/string", "d2", "q", "search", n=(12 if q else 60), len=10))
    extra.append(Stage("random", "alpha/bytes", "d2", "q", "search", n=(6 if q else 30), len=10))
    stages = std_stages(tier, seed, "search", extra=extra)
    return tree_check(work, prop, tier, seed, t0, stages, PROP_INVS[prop],
                      ["SearchOK", "DeleteResOK", "LeavesOK"], RULE_TREE,
                      model_props=["OverwriteKeepsShape", "FailedDeleteIsNoop"])


def check_C02(work, prop, tier, seed, t0):
    extra = coll_stages(tier, "iter") + comp_stages(tier, seed, "iter")
    stages = std_stages(tier, seed, "iter", extra=extra)
    return tree_check(work, prop, tier, seed, t0, stages, PROP_INVS[prop], ["AllOK", "BackwardOK"], RULE_TREE, model_props=[])


def check_C03(work, prop, tier, seed, t0):
    q = tier == "quick"
    bat = "range=-1" if not q else "range=40"
    stages = std_stages(tier, seed, bat, closed=("range", "split"), fan=False,
                        extra=comp_stages(tier, seed, bat) +
                        [Stage("sim", "uint8", "fan1", "q", "range=30", num=(1 if q else 6), depth=(560 if q else 1100),
                               ramp=True, invs=["SizeOK"], every=False)])
    # Range on an empty tree, every bound pair
    stages.append(Stage("random", "alpha/string", "range", "q", "range=-1", n=1, len=0))
    stages.append(Stage("random", "float64", "random", "q", "range=-1", n=1, len=0))
    return tree_check(work, prop, tier, seed, t0, stages, PROP_INVS[prop], ["RangeOK"], RULE_TREE, model_props=[])


def check_C04(work, prop, tier, seed, t0):
    q = tier == "quick"
    size = "q" if q else "t"
    bat = "prefix=-1"
    st = [Stage("model", "alpha/string", "prefix", size, bat), Stage("model", "alpha/string", "split", size, bat),
          Stage("model", "alpha/bytes", "long", size, bat),
          Stage("sim", "alpha/string", "fan1x", size, "prefix=8", num=(2 if q else 8), depth=(520 if q else 1040), ramp=True,
                invs=["SizeOK"], every=False),
          Stage("sim", "alpha/bytes", "fan2", size, "prefix=-1", num=(2 if q else 8), depth=(200 if q else 400), ramp=True,
                invs=["SizeOK"], every=False),
          Stage("model", "collation/string/und", "textq", "q", bat)]
    for k in ["alpha/string", "alpha/bytes"]:
        st.append(Stage("random", k, "random", size, bat, n=(6 if q else 40), len=(50 if q else 120), batevery=2))
        st.append(Stage("random", k, "prefix", size, bat, n=(4 if q else 20), len=(40 if q else 100), batevery=2))
    # collation: text without contractions / ignorables under the root collator
    for k in ["collation/string/und", "collation/bytes/und", "collation/runes/und"]:
        st.append(Stage("random", k, "text", size, bat, n=(3 if q else 12), len=(60 if q else 150), batevery=3))
    return tree_check(work, prop, tier, seed, t0, st, PROP_INVS[prop], ["PrefixOK"], RULE_TREE, model_props=[])


def check_C05(work, prop, tier, seed, t0):
    bat = "minmax,topk"
    extra = coll_stages(tier, bat) + comp_stages(tier, seed, bat)
    stages = std_stages(tier, seed, bat, extra=extra)
    return tree_check(work, prop, tier, seed, t0, stages, PROP_INVS[prop], ["MinMaxOK", "TopBottomOK"], RULE_TREE, model_props=[])


def check_C06(work, prop, tier, seed, t0):
    bat = "iter"
    extra = coll_stages(tier, bat) + comp_stages(tier, seed, bat)
    stages = std_stages(tier, seed, bat, extra=extra)
    return tree_check(work, prop, tier, seed, t0, stages, PROP_INVS[prop], ["SizeOK"], RULE_TREE, model_props=["SizeStep"])


def check_C11(work, prop, tier, seed, t0):
    bat = "dump"
    extra = coll_stages(tier, bat) + comp_stages(tier, seed, bat)
    stages = std_stages(tier, seed, bat, extra=extra)
    return tree_check(work, prop, tier, seed, t0, stages, PROP_INVS[prop],
                      ["WFOK", "ShapeOK", "LeavesOK", "NormalOK", "SizeOK"], RULE_TREE, model_props=[])


def check_C14(work, prop, tier, seed, t0):
    q = tier == "quick"
    bat = "iterchk=%d" % (6 if q else 12)
    extra = coll_stages(tier, bat) + comp_stages(tier, seed, bat)
    stages = std_stages(tier, seed, bat, extra=extra, closed=("split", "range"))
    return tree_check(work, prop, tier, seed, t0, stages, PROP_INVS[prop], ["ReiterOK", "TopBottomOK"], RULE_TREE, model_props=[])


def check_C15(work, prop, tier, seed, t0):
    bat = "all"
    extra = coll_stages(tier, bat) + comp_stages(tier, seed, bat)
    q = tier == "quick"
    stages = std_stages(tier, seed, bat, extra=extra, model_kinds=["alpha/string"])
    if q:
        for s in stages:
            if s.typ == "model":
                s.kw["cap"] = 6000
    return tree_check(work, prop, tier, seed, t0, stages, PROP_INVS[prop], ["SearchOK"], RULE_TREE,
                      model_props=["OverwriteKeepsShape", "FailedDeleteIsNoop"])


def check_C08(work, prop, tier, seed, t0):
    q = tier == "quick"
    bat = "search,iter,minmax,dump"
    st = coll_stages(tier, bat, n=(6 if q else 25), ln=(70 if q else 200))
    st.append(Stage("model", "collation/bytes/sv", "textq", "q", bat))
    st.append(Stage("model", "collation/runes/und", "textq", "q", bat))
    return tree_check(work, prop, tier, seed, t0, st, PROP_INVS[prop],
                      ["SearchOK", "DeleteResOK", "AllOK", "BackwardOK", "WFOK", "SizeOK"], RULE_TREE, model_props=[])


def check_C09(work, prop, tier, seed, t0):
    q = tier == "quick"
    bat = "search,iter,minmax,topk,range=%d,dump" % (20 if q else 60)
    st = comp_stages(tier, seed, bat, n=(5 if q else 15), ln=(60 if q else 150))
    return tree_check(work, prop, tier, seed, t0, st, PROP_INVS[prop],
                      ["SearchOK", "DeleteResOK", "AllOK", "BackwardOK", "RangeOK", "MinMaxOK", "WFOK", "SizeOK"], RULE_TREE,
                      model_props=[], extra_cov={"programs": (4 if q else 20)})


CHECKS = {
    "C01": check_C01, "C02": check_C02, "C03": check_C03, "C04": check_C04, "C05": check_C05, "C06": check_C06,
    "C08": check_C08, "C09": check_C09, "C11": check_C11, "C14": check_C14, "C15": check_C15,
}
