"""The tree pipeline shared by the map-level properties: TLC model run on L1
(ArtTree) -> one implementation test per transition -> replay on real trees ->
ndjson traces -> TLC trace validation against L0/WF (TraceArt)."""
import json, os, random, time, hashlib
import concurrent.futures as cf
from vcommon import *
from vmodel import *

CHUNK = 6 << 20  # trace bytes per TLC validation process


class Stage:
    """One source of executions of the real code."""

    def __init__(self, typ, kind, uname, size="q", battery="all", **kw):
        self.typ, self.kind, self.uname, self.size, self.battery = typ, kind, uname, size, battery
        self.kw = kw

    def label(self):
        return "%s:%s:%s" % (self.typ, self.kind, self.uname)


class Outcome:
    def __init__(self):
        self.model_states = 0
        self.model_transitions = 0
        self.model_runs = []
        self.trace_files = []
        self.trace_lines = 0
        self.segments = 0
        self.ops = 0
        self.digests = 0
        self.samples = []
        self.kinds = set()
        self.violation = None  # (invariant, file, line)
        self.model_violation = None
        self.notes = []
        self.known_files = []  # trace parts lying inside a known finding's signature
        self.file_cmd = {}     # trace file -> harness command that produced it (stages whose executions cannot be re-run call by call)


def run_stage(work, drive, st, seed, out, model_invs, model_props):
    tag = hashlib.md5((st.label() + str(st.kw)).encode()).hexdigest()[:8]
    trace = work.path("trace-%s.ndjson" % tag)
    stats = work.path("stats-%s.json" % tag)
    useed = st.kw.get("useed", seed)
    if "variant" in st.kw:
        # e.g. "386": the portable (non-assembly) 16-slot routines and 32-bit int/uint
        drive = build_harness(work, st.kw["variant"])
    if st.typ in ("model", "sim"):
        uni = universe_json(drive, st.kind, st.uname, st.size, useed)
        if st.typ == "model":
            mod = write_mc(work, "m" + tag, uni, emit=True, invariants=st.kw.get("invs", model_invs), props=model_props,
                           switches=st.kw.get("switches"))
            edges = work.path("edges-%s.ndjson" % tag)
            r = run_model(work, mod, edges, workers=st.kw.get("workers", 4), timeout=st.kw.get("timeout", 3000))
        else:
            num, depth = st.kw.get("num", 20), st.kw.get("depth", 120)
            full = st.kw.get("start_full", False)
            if full:
                depth += sum(1 for k in uni["keys"] if not k["probe"])   # the history starts with the inserts that fill the tree
            mod = write_mc(work, "s" + tag, uni, emit=False, max_depth=depth, ramp=st.kw.get("ramp", True),
                           invariants=st.kw.get("invs", model_invs), props=[], start_full=full, protect=st.kw.get("protect", True),
                           fillcap=st.kw.get("fillcap", 0), floor=st.kw.get("floor", 0))
            edges = work.path("hist-%s.ndjson" % tag)
            r = run_model(work, mod, edges, simulate=(num, depth), seed=seed, timeout=st.kw.get("timeout", 3000))
        run = {"stage": st.label(), "states": r.states, "transitions": r.transitions, "emitted": r.edges,
               "wall_s": round(r.wall, 1), "universe_keys": len(uni["keys"])}
        if r.violation:
            # The universe's transformed bytes come from the REAL encoder / collator: a broken encoder makes the
            # model disagree with the oracle ranks. That is no verdict by itself: the transitions emitted so far
            # are still replayed and the real trees are judged by the traces.
            run["violation"] = r.violation
            out.model_runs.append(run)
            out.model_violation = (st.label(), r.violation, r.out_tail[-1500:])
        elif not r.ok:
            raise Infra("model run %s: %s" % (st.label(), r.error))
        else:
            out.model_runs.append(run)
        # de-duplicate transitions (TLC evaluates some actions twice)
        with open(edges) as f:
            lines = sorted(set(f.readlines()))
        cap = st.kw.get("cap")
        if cap and len(lines) > cap:
            random.Random(seed).shuffle(lines)
            lines = lines[:cap]
        with open(edges, "w") as f:
            f.writelines(lines)
        args = ["replay", "-kind", st.kind, "-u", st.uname, "-size", st.size, "-seed", str(useed), "-in", edges,
                "-out", trace, "-battery", st.battery, "-stats", stats]
        if st.kw.get("prebattery"):
            args.append("-prebattery")
        if st.typ == "sim" and st.kw.get("every", True):
            args.append("-every")
        elif st.typ == "sim":
            args += ["-batevery", str(st.kw.get("batevery", 16))]
        run_drive(drive, args)
        os.remove(edges)
        return ("trace", st, trace, stats, run)
    if st.typ == "random":
        args = ["random", "-kind", st.kind, "-u", st.uname, "-size", st.size, "-seed", str(useed), "-out", trace,
                "-battery", st.battery, "-stats", stats, "-n", str(st.kw.get("n", 10)), "-len", str(st.kw.get("len", 60)),
                "-batevery", str(st.kw.get("batevery", 1)), "-dumpevery", str(st.kw.get("dumpevery", 1))]
        run_drive(drive, args)
        return ("trace", st, trace, stats, None)
    if st.typ == "arena":
        # []byte keys handed over in caller-owned buffers (sub-slices, records with adjacent fields, scanner buffers)
        args = ["arena", "-kind", st.kind, "-u", st.uname, "-seed", str(useed), "-out", trace, "-battery", st.battery, "-stats", stats,
                "-n", str(st.kw.get("n", 4)), "-len", str(st.kw.get("len", 50))]
        run_drive(drive, args)
        out.file_cmd[trace] = {"variant": st.kw.get("variant", "plain"), "args": args[:args.index("-out")] + args[args.index("-out") + 2:args.index("-stats")] + args[args.index("-stats") + 2:],
                               "label": st.label()}
        return ("trace", st, trace, stats, None)
    if st.typ == "gc":
        # values that carry pointers (strings, *struct, slices), the tree their only owner, collections forced between the calls
        args = ["gc", "-kind", st.kind, "-u", st.uname, "-vt", st.kw.get("vt", "ptr"), "-seed", str(useed), "-out", trace, "-stats", stats,
                "-n", str(st.kw.get("n", 2)), "-len", str(st.kw.get("len", 60))]
        run_drive(drive, args)
        out.file_cmd[trace] = {"variant": "plain", "args": args[:args.index("-out")] + args[args.index("-stats") + 2:], "label": st.label()}
        return ("trace", st, trace, stats, None)
    if st.typ == "suite":
        # the repository's own tests, run unedited under the call recorder (verif_record.go); every recorded call is one trace line
        args = ["suite", "-repo", REPO, "-out", trace, "-stats", stats, "-seed", str(useed), "-max", str(st.kw.get("max", 1500)),
                "-proj", str(st.kw.get("proj", 3))]
        run_drive(drive, args)
        out.file_cmd[trace] = {"variant": "plain", "args": args[:args.index("-out")] + args[args.index("-stats") + 2:], "label": st.label()}
        return ("trace", st, trace, stats, None)
    raise Infra("unknown stage type " + st.typ)


def tree_pipeline(work, prop, stages, invariants, seed, model_invs=None, model_props=None, jobs=None, drive=None):
    """Runs all stages, validates all traces. Returns an Outcome."""
    out = Outcome()
    drive = drive or build_harness(work)
    jobs = jobs or NCPU
    # TLC model runs are heavy (8 workers each): at most 2 at a time; the rest is cheap
    models = [s for s in stages if s.typ == "model"]
    sims = [s for s in stages if s.typ == "sim"]
    light = [s for s in stages if s.typ not in ("model", "sim")]
    results = []
    # TLC model runs use several workers each: 3 at a time; simulations are single-threaded: 6 at a time
    with cf.ThreadPoolExecutor(max_workers=3) as ex_m, cf.ThreadPoolExecutor(max_workers=6) as ex_s, \
            cf.ThreadPoolExecutor(max_workers=4) as ex_l:
        # longest simulations first
        sims.sort(key=lambda s: -s.kw.get("depth", 0) * (3 if s.uname in ("fan1", "fan1x", "fanp") else 1))
        futs = [ex_s.submit(run_stage, work, drive, s, seed, out, model_invs, model_props) for s in sims]
        futs += [ex_m.submit(run_stage, work, drive, s, seed, out, model_invs, model_props) for s in models]
        futs += [ex_l.submit(run_stage, work, drive, s, seed, out, model_invs, model_props) for s in light]
        for f in futs:
            results.append(f.result())
    files = []
    for r in results:
        _, st, trace, stats, run = r
        s = json.load(open(stats))
        out.trace_lines += s["lines"]
        out.segments += s["segments"]
        out.ops += s["ops"]
        out.digests += s["distinct_digests"]
        out.kinds.add(s["kind"])
        for smp in s.get("samples", [])[:1]:
            if len(out.samples) < 8 or st.typ == "suite":
                out.samples.append({"stage": st.label(), "history": smp if len(smp) <= 600 else smp[:600] + " ... (%d characters)" % len(smp)})
        if s.get("panics"):
            out.notes.append("%s: %d call(s) panicked" % (st.label(), s["panics"]))
        if st.uname == "d2":
            clean, tainted = split_d2(trace)
            files.append(clean)
            if tainted:
                out.known_files.append(tainted)
            continue
        parts = split_trace(trace, CHUNK)
        if trace in out.file_cmd:
            for pth in parts:
                out.file_cmd[pth] = out.file_cmd[trace]
        files += parts
    for r in out.model_runs:
        out.model_states += r["states"]
        out.model_transitions += r["transitions"]
    t0 = time.time()
    vres = validate_many(work, files, invariants, jobs=jobs)
    log("validated %d trace files (%d lines) in %.1fs" % (len(files), out.trace_lines, time.time() - t0))
    for v in vres:
        if v.error:
            raise Infra("trace validation of %s: %s" % (os.path.basename(v.file), v.error))
        if v.invariant:
            out.violation = (v.invariant, v.file, v.line)
            break
    out.trace_files = files
    return out
