-------------------------------- MODULE ArtEnv --------------------------------
(***************************************************************************)
(* L2 - the environment of a tree: what it keeps alive and what the        *)
(* caller and the runtime may do around it (C13, C17, C18).                *)
(*                                                                         *)
(* State: the stored keys; per stored key the bytes the tree owns for it;  *)
(* the scratch buffer of the key transformation (collation sort keys);     *)
(* the caller's buffers (arenas) with the key most recently passed in      *)
(* each; which buffers a leaf still points into.                           *)
(*                                                                         *)
(* Environment steps that must be stuttering steps for the tree's          *)
(* observable content: GC (collects everything unreachable), Scribble      *)
(* (the caller overwrites a buffer it passed earlier).                     *)
(*                                                                         *)
(* Switches (defaults = the repaired code):                                *)
(*   BufferAppendOnly  the scratch buffer grows with every call (D10)      *)
(*   AliasCaller       a leaf keeps pointing into the caller's buffer (D9) *)
(*   WriteTerminator   the terminator is appended in place into the        *)
(*                     caller's spare capacity (D9)                        *)
(*   QueryMemo         hidden state written by queries (C15): "none" (the  *)
(*                     code: a query writes nothing), "sound" (a memo of   *)
(*                     the last hit, dropped by every Delete of that key), *)
(*                     "leafPathOnly" (dropped only where Delete unlinks a *)
(*                     leaf from an inner node - not when the root itself  *)
(*                     is the leaf)                                        *)
(***************************************************************************)
EXTENDS Integers, FiniteSets, Sequences, TLC

CONSTANTS Keys, Bufs, KeyLen, MaxOps, BufferAppendOnly, AliasCaller, WriteTerminator, QueryMemo

VARIABLES
  stored,    \* set of keys in the tree
  owned,     \* owned[k]: bytes the tree holds privately for key k (0 if it aliases a caller buffer)
  alias,     \* alias[k]: the caller buffer the leaf of k points into, or "none"
  scratch,   \* length of the transformation buffer
  bufkey,    \* bufkey[b]: the key whose bytes the caller last put into buffer b ("none": garbage)
  spare,     \* spare[b]: the byte after the key in b is still the caller's
  ops,       \* operations performed (bounds the model)
  memo       \* the key a query remembered (hidden from the structure), or "none"

vars == <<stored, owned, alias, scratch, bufkey, spare, ops, memo>>

None == "none"

Init ==
  /\ stored = {} /\ owned = [k \in Keys |-> 0] /\ alias = [k \in Keys |-> None]
  /\ scratch = 0 /\ bufkey = [b \in Bufs |-> None] /\ spare = [b \in Bufs |-> TRUE]
  /\ ops = 0 /\ memo = None

Transform == scratch' = IF BufferAppendOnly THEN scratch + KeyLen ELSE 0

(* the caller fills a buffer with key k and passes it *)
Pass(b, k) == bufkey' = [bufkey EXCEPT ![b] = k]
Touch(b) == spare' = [spare EXCEPT ![b] = IF WriteTerminator THEN FALSE ELSE @]

Insert(k, b) ==
  /\ ops < MaxOps /\ ops' = ops + 1
  /\ Pass(b, k) /\ Touch(b) /\ Transform
  /\ stored' = stored \cup {k} /\ UNCHANGED memo
  /\ IF k \in stored THEN UNCHANGED <<owned, alias>>
     ELSE /\ owned' = [owned EXCEPT ![k] = IF AliasCaller THEN 0 ELSE KeyLen]
          /\ alias' = [alias EXCEPT ![k] = IF AliasCaller THEN b ELSE None]

Delete(k, b) ==
  /\ ops < MaxOps /\ ops' = ops + 1
  /\ Pass(b, k) /\ Touch(b) /\ Transform
  /\ stored' = stored \ {k}
  /\ memo' = IF memo = k /\ ~(QueryMemo = "leafPathOnly" /\ stored = {k}) THEN None ELSE memo
  /\ owned' = [owned EXCEPT ![k] = 0]
  /\ alias' = [alias EXCEPT ![k] = None]

Query(k, b) ==
  /\ ops < MaxOps /\ ops' = ops + 1
  /\ Pass(b, k) /\ Touch(b) /\ Transform
  /\ memo' = IF QueryMemo # "none" /\ k \in stored THEN k ELSE memo
  /\ UNCHANGED <<stored, owned, alias>>

(* environment *)
Scribble(b) ==
  /\ bufkey[b] # None
  /\ bufkey' = [bufkey EXCEPT ![b] = None]
  /\ spare' = [spare EXCEPT ![b] = TRUE]
  /\ UNCHANGED <<stored, owned, alias, scratch, ops, memo>>
GC == UNCHANGED vars     \* everything the tree needs is reachable through typed pointers: nothing changes

Next ==
  \/ \E k \in Keys : \E b \in Bufs : Insert(k, b) \/ Delete(k, b) \/ Query(k, b)
  \/ \E b \in Bufs : Scribble(b)
  \/ GC

Spec == Init /\ [][Next]_vars

-----------------------------------------------------------------------------
(* what the tree currently answers for key k: k itself, unless its leaf aliases a buffer that no longer holds k *)
Readable(k) == k \in stored /\ (alias[k] = None \/ bufkey[alias[k]] = k)

(* C13a: no call writes to caller memory *)
CallerUntouched == \A b \in Bufs : spare[b]
(* C13b: stored keys belong to the tree *)
KeysOwned == \A k \in stored : Readable(k)
(* C15: what a query answers depends on the content alone - never on which queries were made before *)
Answer(k) == IF QueryMemo # "none" /\ memo = k THEN TRUE ELSE k \in stored
QueriesTransparent == \A k \in Keys : Answer(k) = (k \in stored)
(* C17: retained memory is bounded by the content, not by the number of operations *)
Retained == scratch + KeyLen * Cardinality({k \in Keys : owned[k] > 0})
BoundedRetention == Retained <= KeyLen * (Cardinality(stored) + 1)
EmptyRetainsNothing == stored = {} => Retained <= KeyLen

=============================================================================
