---------------------------- MODULE ArtEnvProof ----------------------------
(***************************************************************************)
(* For the code as it runs (no switch flipped) three of ArtEnv's           *)
(* properties are invariants for ANY key set, any number of caller         *)
(* buffers, any key length and any number of operations (TLAPS); TLC       *)
(* checks them - and the two retention bounds, which need cardinality      *)
(* reasoning - for 3 keys, 2 buffers and 6 operations.                     *)
(*   CallerUntouched      no call writes into caller memory       (C13)    *)
(*   KeysOwned            every stored key is the tree's own      (C13)    *)
(*   QueriesTransparent   answers depend on the content alone     (C15)    *)
(***************************************************************************)
EXTENDS ArtEnv, TLAPS

ASSUME Defaults == /\ BufferAppendOnly = FALSE /\ AliasCaller = FALSE
                   /\ WriteTerminator = FALSE /\ QueryMemo = "none"
ASSUME NoneNoKey == None \notin Keys /\ None \notin Bufs

Inv ==
  /\ stored \subseteq Keys
  /\ alias = [k \in Keys |-> None]
  /\ spare = [b \in Bufs |-> TRUE]
  /\ scratch = 0
  /\ memo = None

THEOREM InitInv == Init => Inv
  BY DEF Init, Inv

THEOREM InvSafe == Inv => (CallerUntouched /\ KeysOwned /\ QueriesTransparent)
  BY Defaults, NoneNoKey DEF Inv, CallerUntouched, KeysOwned, Readable, QueriesTransparent, Answer, None

THEOREM NextInv == Inv /\ [Next]_vars => Inv'
<1> SUFFICES ASSUME Inv, [Next]_vars PROVE Inv'
  OBVIOUS
<1>1 ASSUME NEW k \in Keys, NEW b \in Bufs, Insert(k, b) PROVE Inv'
  BY <1>1, Defaults DEF Inv, Insert, Pass, Touch, Transform
<1>2 ASSUME NEW k \in Keys, NEW b \in Bufs, Delete(k, b) PROVE Inv'
  BY <1>2, Defaults, NoneNoKey DEF Inv, Delete, Pass, Touch, Transform, None
<1>3 ASSUME NEW k \in Keys, NEW b \in Bufs, Query(k, b) PROVE Inv'
  BY <1>3, Defaults DEF Inv, Query, Pass, Touch, Transform
<1>4 ASSUME NEW b \in Bufs, Scribble(b) PROVE Inv'
  BY <1>4 DEF Inv, Scribble
<1>5 ASSUME GC PROVE Inv'
  BY <1>5 DEF Inv, GC, vars
<1>6 ASSUME UNCHANGED vars PROVE Inv'
  BY <1>6 DEF Inv, vars
<1> QED
  BY <1>1, <1>2, <1>3, <1>4, <1>5, <1>6 DEF Next

THEOREM Safety == Spec => [](CallerUntouched /\ KeysOwned /\ QueriesTransparent)
<1>1 Inv /\ [Next]_vars => Inv'
  BY NextInv
<1>2 Spec => []Inv
  BY InitInv, <1>1, PTL DEF Spec
<1> QED
  BY <1>2, InvSafe, PTL
=============================================================================
