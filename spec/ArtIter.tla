------------------------------- MODULE ArtIter -------------------------------
(***************************************************************************)
(* L1 - the iteration protocol (C14): how a sequence VALUE returned by     *)
(* All / Backward / Range / Prefix / TopK / BottomK behaves when it is     *)
(* ranged over several times, stopped early, and when other sequences are  *)
(* walked in between.                                                      *)
(*                                                                         *)
(* go-art's sequences are closures over an explicit traversal stack        *)
(* (tree.go: all, backward, filter, rangeScan; topK / bottomK wrap them    *)
(* with a counter).  One PASS: the stack is set up from the root, elements  *)
(* are popped in order and handed to the consumer's yield; yield returning *)
(* false must end the pass at once.  The content of a walk is abstracted   *)
(* to the sequence 1..N (its order is ArtTree's business); K is the limit  *)
(* of TopK / BottomK (K >= N: no limit).                                   *)
(*                                                                         *)
(* Deviation switches (defaults = the repaired code):                      *)
(*   CounterScope  "perPass": the remaining-count lives in the pass (D8    *)
(*                 fixed) | "perValue": captured in the sequence value     *)
(*   StackHome     "perPass": a fresh stack per pass | "pooledReset": a    *)
(*                 recycled stack, emptied when taken | "pooledKeep": a    *)
(*                 recycled stack that keeps what an abandoned pass left   *)
(*   StopHonoured  TRUE: yield = false ends the pass | FALSE: only the     *)
(*                 innermost loop is left (break instead of return)        *)
(***************************************************************************)
EXTENDS Integers, Sequences, FiniteSets

CONSTANTS N, K, MaxPasses, CounterScope, StackHome, StopHonoured

VARIABLES
  left,     \* the count captured in the sequence VALUE (used when CounterScope = "perValue")
  pool,     \* what the recycled stack holds while nobody walks (pending elements, next first)
  pass,     \* the running pass, or NoPass
  done      \* completed passes: [stop, yielded, late]

vars == <<left, pool, pass, done>>

NoPass == [on |-> FALSE, stack |-> <<>>, yielded |-> <<>>, stop |-> 0, stopped |-> FALSE, late |-> 0, remaining |-> 0]

Full == [i \in 1..N |-> i]
Min2(a, b) == IF a <= b THEN a ELSE b
Take(s, n) == SubSeq(s, 1, Min2(n, Len(s)))

Init ==
  /\ left = K
  /\ pool = <<>>
  /\ pass = NoPass
  /\ done = <<>>

(* the consumer starts ranging over the value and will stop after `stop` elements (stop > N: never) *)
Begin(stop) ==
  /\ ~pass.on /\ Len(done) < MaxPasses
  /\ pass' = [on |-> TRUE,
              stack |-> (IF StackHome = "pooledKeep" THEN pool ELSE <<>>) \o Full,
              yielded |-> <<>>, stop |-> stop, stopped |-> FALSE, late |-> 0,
              remaining |-> IF CounterScope = "perPass" THEN K ELSE left]
  /\ pool' = <<>>
  /\ UNCHANGED <<left, done>>

Finish ==
  /\ done' = Append(done, [stop |-> pass.stop, yielded |-> pass.yielded, late |-> pass.late])
  /\ pool' = IF StackHome = "perPass" THEN <<>> ELSE pass'.stack
  /\ UNCHANGED left

(* one element is popped and handed to yield *)
Step ==
  /\ pass.on /\ pass.stack # <<>> /\ pass.remaining > 0
  /\ LET e == Head(pass.stack)
         nowStopped == pass.stopped \/ Len(pass.yielded) + 1 >= pass.stop
     IN  /\ pass' = [pass EXCEPT !.stack = Tail(@),
                                 !.yielded = IF pass.stopped THEN @ ELSE Append(@, e),
                                 !.late = IF pass.stopped THEN @ + 1 ELSE @,
                                 !.stopped = nowStopped,
                                 !.remaining = @ - 1]
         /\ left' = IF CounterScope = "perValue" THEN left - 1 ELSE left
  /\ UNCHANGED <<pool, done>>

(* the pass ends: exhausted, limit reached, or the consumer said stop *)
End ==
  /\ pass.on
  /\ \/ pass.stack = <<>>
     \/ pass.remaining = 0
     \/ pass.stopped /\ StopHonoured
  /\ pass' = [NoPass EXCEPT !.stack = pass.stack]
  /\ Finish

(* a pass whose consumer has said stop may only continue where the stop is not honoured *)
StepAllowed == ~(pass.stopped /\ StopHonoured)

Next ==
  \/ \E stop \in 1..(N + 1) : Begin(stop)
  \/ (StepAllowed /\ Step)
  \/ End

Spec == Init /\ [][Next]_vars

-----------------------------------------------------------------------------
(* C14: every pass over the value delivers the specified prefix, and nothing after the consumer said stop *)
Expected(stop) == Take(Take(Full, K), stop)
PassesOK == \A i \in 1..Len(done) : done[i].yielded = Expected(done[i].stop) /\ done[i].late = 0
(* a running pass has delivered a prefix of what is specified *)
RunningOK == pass.on => pass.yielded = Take(Expected(pass.stop), Len(pass.yielded))

=============================================================================
