------------------------------- MODULE ArtMap -------------------------------
(***************************************************************************)
(* L0 - the meaning of a go-art tree: an ordered map.                      *)
(*                                                                         *)
(* Keys are RANKS 1..N: the position of a key in its universe under the    *)
(* tree's *declared* order (bytewise, numeric, float order of the          *)
(* statement, collator order, tuple order).  Ranks are assigned by an      *)
(* oracle comparator outside the library, so nothing in this module        *)
(* depends on the library's encoders.  A map is a function                 *)
(*      m \in [1..N -> Nat]      with 0 = absent, v > 0 = stored value.    *)
(*                                                                         *)
(* Every operator below is the specified result of one API call; the       *)
(* verdict invariants of TraceArt and the refinement invariants of ArtTree *)
(* are phrased with these operators and nothing else.                      *)
(***************************************************************************)
EXTENDS Integers, Sequences, FiniteSets

Absent == 0

EmptyMap(N) == [k \in 1..N |-> Absent]

Present(m) == {k \in DOMAIN m : m[k] # Absent}

Size(m) == Cardinality(Present(m))

Has(m, k) == k \in DOMAIN m /\ m[k] # Absent

(* Search(k): value and presence *)
SearchVal(m, k)   == IF Has(m, k) THEN m[k] ELSE 0
SearchFound(m, k) == Has(m, k)

(* Insert / Delete as state transformers, Delete's return value *)
Ins(m, k, v)    == [m EXCEPT ![k] = v]
Del(m, k)       == [m EXCEPT ![k] = Absent]
DeleteRes(m, k) == Has(m, k)

Min2(a, b) == IF a <= b THEN a ELSE b
Max2(a, b) == IF a >= b THEN a ELSE b

(* the ascending sequence of the elements of a finite set of integers *)
RECURSIVE SortedSeq(_)
SortedSeq(S) ==
  IF S = {} THEN <<>>
  ELSE LET x == CHOOSE y \in S : \A z \in S : y <= z
       IN  <<x>> \o SortedSeq(S \ {x})

Reverse(s) == [i \in 1..Len(s) |-> s[Len(s) + 1 - i]]

Take(s, n) == SubSeq(s, 1, Min2(n, Len(s)))

(* All(): keys ascending; values read off the map *)
AllKeys(m)      == SortedSeq(Present(m))
ValsOf(m, ks)   == [i \in 1..Len(ks) |-> m[ks[i]]]
BackwardKeys(m) == Reverse(AllKeys(m))

MinKey(m) == IF Present(m) = {} THEN 0 ELSE CHOOSE k \in Present(m) : \A j \in Present(m) : k <= j
MaxKey(m) == IF Present(m) = {} THEN 0 ELSE CHOOSE k \in Present(m) : \A j \in Present(m) : k >= j

BottomKKeys(m, n) == Take(AllKeys(m), n)
TopKKeys(m, n)    == Take(BackwardKeys(m), n)

(* Range(a,b): inclusive, either way round *)
RangeKeys(m, a, b) ==
  SortedSeq({k \in Present(m) : Min2(a, b) <= k /\ k <= Max2(a, b)})

(* byte-string trees: an empty end bound means "up to the largest stored key" *)
RangeOpenKeys(m, a) == SortedSeq({k \in Present(m) : a <= k})

(* Prefix(p): O is the universe's original-bytes table, O[k] the original key of rank k *)
IsPrefixOf(p, s) == Len(p) <= Len(s) /\ \A i \in 1..Len(p) : p[i] = s[i]
PrefixKeys(m, O, p) == SortedSeq({k \in Present(m) : IsPrefixOf(O[p], O[k])})

(* iteration protocol: a pass stopped after `stop` elements delivers that many *)
Pass(full, stop) == Take(full, stop)

=============================================================================
