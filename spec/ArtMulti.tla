------------------------------ MODULE ArtMulti ------------------------------
(***************************************************************************)
(* Interleavings of histories on several independent trees (C12, C16).     *)
(*                                                                         *)
(* Each tree t is an ArtMap over NI[t] insertable keys; trees are a plain  *)
(* product (no shared state in the specification - that independence is    *)
(* what the real trees, which do share the node pools, have to match).     *)
(* Every tree ramps its fill level up and down with its own phase, so      *)
(* that one tree grows through the node-size thresholds while another      *)
(* shrinks and releases nodes of the same classes.  TLC's simulator        *)
(* produces the interleavings; they are printed at depth MaxDepth and      *)
(* replayed on real trees of mixed kinds on one goroutine.                 *)
(***************************************************************************)
EXTENDS Integers, Sequences, FiniteSets, TLC, Json

CONSTANTS NI, MaxDepth     \* NI: sequence, NI[t] = number of insertable keys of tree t

VARIABLES present, phase, h
vars == <<present, phase, h>>

TreeIds == 1..Len(NI)

Init ==
  /\ present = [t \in TreeIds |-> {}]
  /\ phase = [t \in TreeIds |-> IF t % 2 = 1 THEN "fill" ELSE "hold"]
  /\ h = <<>>

NextPhase(t, sz) ==
  CASE phase[t] = "fill" /\ sz >= NI[t] -> "drain"
    [] phase[t] = "drain" /\ sz = 0 -> "fill"
    [] phase[t] = "hold" /\ Len(h) > 40 * t -> "fill"     \* staggered start
    [] OTHER -> phase[t]

Ins(t, k) ==
  /\ present' = [present EXCEPT ![t] = @ \cup {k}]
  /\ phase' = [phase EXCEPT ![t] = NextPhase(t, Cardinality(present[t] \cup {k}))]
  /\ h' = Append(h, <<t, 1, k>>)

Del(t, k) ==
  /\ present' = [present EXCEPT ![t] = @ \ {k}]
  /\ phase' = [phase EXCEPT ![t] = NextPhase(t, Cardinality(present[t] \ {k}))]
  /\ h' = Append(h, <<t, 2, k>>)

Absent(t) == (1..NI[t]) \ present[t]

Step(t) ==
  \/ /\ phase[t] \in {"fill", "hold"} /\ Absent(t) # {}
     /\ \E k \in {RandomElement(Absent(t))} : Ins(t, k)
  \/ /\ phase[t] = "drain" /\ present[t] # {}
     /\ \E k \in {RandomElement(present[t])} : Del(t, k)
  \/ /\ present[t] # {} /\ Len(h) % 6 = 0              \* churn against the ramp
     /\ \E k \in {RandomElement(present[t])} : IF phase[t] = "drain" THEN Ins(t, k) ELSE Del(t, k)
  \/ /\ Len(h) % 11 = 0                                 \* failed delete / absent key
     /\ Absent(t) # {} /\ \E k \in {RandomElement(Absent(t))} : Del(t, k)

Next == Len(h) < MaxDepth /\ \E t \in TreeIds : Step(t)

Spec == Init /\ [][Next]_vars

(* independence: the trees are a plain product - an operation on t leaves every other tree alone *)
Independent == [][\A t \in TreeIds : (h' # h /\ h'[Len(h')][1] # t) => present'[t] = present[t]]_vars

EmitHist == (Len(h) = MaxDepth) => PrintT(<<"HIST", ToJson([hist |-> h])>>)
=============================================================================
