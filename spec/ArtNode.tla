------------------------------- MODULE ArtNode -------------------------------
(***************************************************************************)
(* L2 - one inner node as a state machine over its RAW lanes.              *)
(*                                                                         *)
(* The four layouts are modelled as they are stored, including what the    *)
(* code leaves in unoccupied lanes: shiftLeftClear / shiftRightClear on    *)
(* the packed 4-lane word, copy() on the 16-lane array (which leaves the   *)
(* old last key behind), construct() on shrink (which carries a stale      *)
(* fourth lane), the 48-class slot index, the 256-class direct table.      *)
(* Lookups use the semantics of the SWAR / SIMD primitives as scalar       *)
(* scans: search4 (first equal lane) / insertPos4 (first lane >= b) look   *)
(* at ALL four lanes, the 4-slot lookup is then guarded by the fill count; *)
(* search16 / insertPos16 (first lane > b, unsigned) are limited to the    *)
(* fill count by their mask.                                               *)
(*                                                                         *)
(* Abstract view: table, a function byte -> child id (0 = none).           *)
(* Invariants: every byte looks up exactly table[b]; children enumerate    *)
(* in strictly ascending unsigned byte order; stale lanes never show.      *)
(***************************************************************************)
EXTENDS Integers, Sequences, FiniteSets, TLC, Json

CONSTANTS
  Alphabet,     \* byte values children may be registered under
  Probes,       \* byte values looked up in the invariants (superset of Alphabet)
  EmitEdges,
  GuardFill,    \* TRUE: 4-slot lookups are guarded by the fill count (as in the code)
  Unsigned16    \* TRUE: insertPos16 orders bytes as unsigned (0x80 bias applied)

VARIABLES
  kind,     \* "n4" | "n16" | "n48" | "n256" | "gone" (collapsed into its last child)
  n,        \* fill count
  lanes,    \* n4: 4 bytes, n16: 16 bytes (raw, incl. unoccupied); else <<>>
  kids,     \* n4/n16: child id per slot (0 = nil); n48: 48 slots; n256: 256 entries indexed by byte+1
  idx,      \* n48: byte+1 -> slot number (0 = none); else <<>>
  table,    \* ghost: byte+1 -> child id (0 = none)
  h         \* history (not in the VIEW)

vars == <<kind, n, lanes, kids, idx, table, h>>
View == <<kind, n, lanes, kids, idx, table>>

Id(b) == b + 1        \* the child registered under byte b
Zeros(k) == [i \in 1..k |-> 0]

(* first position (0-based) among the first lim lanes satisfying P, else -1 *)
FirstLane(ls, lim, P(_)) ==
  IF \E i \in 1..lim : P(ls[i])
  THEN (CHOOSE i \in 1..lim : P(ls[i]) /\ \A j \in 1..(i - 1) : ~P(ls[j])) - 1
  ELSE -1

Search4(ls, b)    == FirstLane(ls, 4, LAMBDA x : x = b)
InsertPos4(ls, b) == FirstLane(ls, 4, LAMBDA x : x >= b)   \* first-greater-or-equal over ALL four lanes
Search16(ls, k, b) == FirstLane(ls, k, LAMBDA x : x = b)
Signed(x) == IF x >= 128 THEN x - 256 ELSE x
InsertPos16(ls, k, b) ==
  IF Unsigned16 THEN FirstLane(ls, k, LAMBDA x : x > b)
  ELSE FirstLane(ls, k, LAMBDA x : Signed(x) > Signed(b))

(* shift the slots at 0-based positions >= p up by one; the top one falls off *)
ShiftUp(s, p, fill) == [i \in 1..Len(s) |-> IF i <= p THEN s[i] ELSE IF i = p + 1 THEN fill ELSE s[i - 1]]
(* shiftRightClear(keys, i+1) after deleting slot i: lanes i+1..3 move down, lane 3 keeps *)
(* its value (for i = 3 nothing moves: the shift count is 32); written out in Remove     *)

SetAt(s, p, x) == [s EXCEPT ![p + 1] = x]

-----------------------------------------------------------------------------
(* lookups as the code performs them *)

Find(b) ==
  CASE kind = "n4" ->
         LET i == Search4(lanes, b)
         IN  IF i # -1 /\ (~GuardFill \/ i < n) THEN kids[i + 1] ELSE 0
    [] kind = "n16" ->
         LET i == Search16(lanes, n, b)
         IN  IF i # -1 THEN kids[i + 1] ELSE 0
    [] kind = "n48" -> IF idx[b + 1] # 0 THEN kids[idx[b + 1]] ELSE 0
    [] kind = "n256" -> kids[b + 1]
    [] OTHER -> 0

(* enumeration order of the forward iterator: (byte, id) pairs *)
EnumBytes ==
  CASE kind \in {"n4", "n16"} -> [i \in 1..n |-> lanes[i]]
    [] kind = "n48" ->
         LET S == {b \in 0..255 : idx[b + 1] # 0}
         IN  [i \in 1..Cardinality(S) |-> CHOOSE b \in S : Cardinality({c \in S : c < b}) = i - 1]
    [] kind = "n256" ->
         LET S == {b \in 0..255 : kids[b + 1] # 0}
         IN  [i \in 1..Cardinality(S) |-> CHOOSE b \in S : Cardinality({c \in S : c < b}) = i - 1]
    [] OTHER -> <<>>
EnumIds ==
  CASE kind \in {"n4", "n16"} -> [i \in 1..n |-> kids[i]]
    [] kind = "n48" -> [i \in 1..Len(EnumBytes) |-> kids[idx[EnumBytes[i] + 1]]]
    [] kind = "n256" -> [i \in 1..Len(EnumBytes) |-> kids[EnumBytes[i] + 1]]
    [] OTHER -> <<>>

-----------------------------------------------------------------------------
(* addChild, per class; a full node is first copied into the next class *)

Add16(ls, ks, k, b, c) ==      \* returns [lanes, kids, n]
  LET p == InsertPos16(ls, k, b)
      q == IF p # -1 THEN p ELSE k
  IN  [lanes |-> SetAt(IF p # -1 THEN ShiftUp(ls, p, 0) ELSE ls, q, b),
       kids  |-> SetAt(IF p # -1 THEN ShiftUp(ks, p, 0) ELSE ks, q, c),
       n     |-> k + 1]

FreeSlot48(ks) == CHOOSE s \in 1..48 : ks[s] = 0 /\ \A j \in 1..(s - 1) : ks[j] # 0

Add(b) ==
  /\ kind \in {"n4", "n16", "n48", "n256"}
  /\ table[b + 1] = 0
  /\ table' = [table EXCEPT ![b + 1] = Id(b)]
  /\ h' = Append(h, <<"A", b>>)
  /\ CASE kind = "n4" /\ n < 4 ->
            LET p == InsertPos4(lanes, b)
                q == IF p # -1 THEN p ELSE n
            IN  /\ lanes' = SetAt(IF p # -1 THEN ShiftUp(lanes, p, 0) ELSE lanes, q, b)
                /\ kids' = SetAt(IF p # -1 THEN ShiftUp(kids, p, 0) ELSE kids, q, Id(b))
                /\ n' = n + 1
                /\ UNCHANGED <<kind, idx>>
       [] kind = "n4" /\ n >= 4 ->
            LET r == Add16(lanes \o Zeros(12), kids \o Zeros(12), n, b, Id(b))
            IN  /\ kind' = "n16" /\ lanes' = r.lanes /\ kids' = r.kids /\ n' = r.n
                /\ UNCHANGED idx
       [] kind = "n16" /\ n < 16 ->
            LET r == Add16(lanes, kids, n, b, Id(b))
            IN  /\ lanes' = r.lanes /\ kids' = r.kids /\ n' = r.n
                /\ UNCHANGED <<kind, idx>>
       [] kind = "n16" /\ n >= 16 ->
            LET ix0 == [x \in 1..256 |-> IF \E i \in 1..16 : lanes[i] = x - 1
                                          THEN CHOOSE i \in 1..16 : lanes[i] = x - 1 ELSE 0]
                ks0 == kids \o Zeros(32)
                s   == FreeSlot48(ks0)
            IN  /\ kind' = "n48" /\ lanes' = <<>>
                /\ kids' = [ks0 EXCEPT ![s] = Id(b)]
                /\ idx' = [ix0 EXCEPT ![b + 1] = s]
                /\ n' = n + 1
       [] kind = "n48" /\ n < 48 ->
            LET s == FreeSlot48(kids)
            IN  /\ kids' = [kids EXCEPT ![s] = Id(b)]
                /\ idx' = [idx EXCEPT ![b + 1] = s]
                /\ n' = n + 1
                /\ UNCHANGED <<kind, lanes>>
       [] kind = "n48" /\ n >= 48 ->
            /\ kind' = "n256" /\ lanes' = <<>> /\ idx' = <<>>
            /\ kids' = [x \in 1..256 |-> IF x = b + 1 THEN Id(b) ELSE IF idx[x] # 0 THEN kids[idx[x]] ELSE 0]
            /\ n' = n + 1
       [] kind = "n256" ->
            /\ kids' = [kids EXCEPT ![b + 1] = Id(b)]
            /\ n' = n + 1
            /\ UNCHANGED <<kind, lanes, idx>>

(* deleteChild, per class, with the shrink thresholds 3 / 12 / 37 and the collapse of a node4 *)
Remove(b) ==
  /\ kind \in {"n4", "n16", "n48", "n256"}
  /\ table[b + 1] # 0
  /\ n >= 2
  /\ table' = [table EXCEPT ![b + 1] = 0]
  /\ h' = Append(h, <<"R", b>>)
  /\ CASE kind = "n4" ->
            LET i  == Search4(lanes, b)                  \* no fill guard here in the code
                ls == [j \in 1..4 |-> IF j <= i THEN lanes[j] ELSE IF j < 4 THEN lanes[j + 1] ELSE lanes[j]]
                ks == [j \in 1..4 |-> IF j <= i THEN kids[j] ELSE IF j < 4 THEN kids[j + 1] ELSE kids[j]]
            IN  /\ lanes' = ls /\ kids' = ks /\ n' = n - 1
                /\ kind' = IF n - 1 = 1 THEN "gone" ELSE "n4"
                /\ UNCHANGED idx
       [] kind = "n16" ->
            LET i  == Search16(lanes, n, b)
                ls == [j \in 1..16 |-> IF j <= i THEN lanes[j] ELSE IF j < 16 THEN lanes[j + 1] ELSE lanes[j]]
                ks == [j \in 1..16 |-> IF j <= i THEN kids[j] ELSE IF j < 16 THEN kids[j + 1] ELSE kids[j]]
            IN  IF n - 1 = 3
                THEN /\ kind' = "n4" /\ lanes' = SubSeq(ls, 1, 4) /\ kids' = SubSeq(ks, 1, 4) /\ n' = 3
                     /\ UNCHANGED idx
                ELSE /\ lanes' = ls /\ kids' = ks /\ n' = n - 1 /\ UNCHANGED <<kind, idx>>
       [] kind = "n48" ->
            LET s   == idx[b + 1]
                ix  == [idx EXCEPT ![b + 1] = 0]
                ks  == [kids EXCEPT ![s] = 0]
                S   == {c \in 0..255 : ix[c + 1] # 0}
                ord == [i \in 1..Cardinality(S) |-> CHOOSE c \in S : Cardinality({d \in S : d < c}) = i - 1]
            IN  IF n - 1 = 12
                THEN /\ kind' = "n16" /\ idx' = <<>> /\ n' = 12
                     /\ lanes' = [j \in 1..16 |-> IF j <= 12 THEN ord[j] ELSE 0]
                     /\ kids' = [j \in 1..16 |-> IF j <= 12 THEN ks[ix[ord[j] + 1]] ELSE 0]
                ELSE /\ idx' = ix /\ kids' = ks /\ n' = n - 1 /\ UNCHANGED <<kind, lanes>>
       [] kind = "n256" ->
            LET ks  == [kids EXCEPT ![b + 1] = 0]
                S   == {c \in 0..255 : ks[c + 1] # 0}
                ord == [i \in 1..Cardinality(S) |-> CHOOSE c \in S : Cardinality({d \in S : d < c}) = i - 1]
            IN  IF n - 1 = 37
                THEN /\ kind' = "n48" /\ lanes' = <<>> /\ n' = 37
                     /\ kids' = [j \in 1..48 |-> IF j <= 37 THEN ks[ord[j] + 1] ELSE 0]
                     /\ idx' = [x \in 1..256 |-> IF ks[x] # 0 THEN Cardinality({d \in S : d < x - 1}) + 1 ELSE 0]
                ELSE /\ kids' = ks /\ n' = n - 1 /\ UNCHANGED <<kind, lanes, idx>>

Init ==
  /\ kind = "n4" /\ n = 0
  /\ lanes = Zeros(4) /\ kids = Zeros(4) /\ idx = <<>>
  /\ table = [x \in 1..256 |-> 0]
  /\ h = <<>>

Emit(op) == IF EmitEdges THEN PrintT(<<"EDGE", ToJson([pre |-> h, op |-> op])>>) ELSE TRUE

Next ==
  \/ \E b \in Alphabet : Add(b) /\ Emit(<<"A", b>>)
  \/ \E b \in Alphabet : Remove(b) /\ Emit(<<"R", b>>)

Spec == Init /\ [][Next]_vars

-----------------------------------------------------------------------------
Alive == kind # "gone"

LookupOK == Alive => \A b \in Probes : Find(b) = table[b + 1]

CountOK == Alive => n = Cardinality({b \in 0..255 : table[b + 1] # 0})

EnumOK ==
  Alive =>
    /\ \A i \in 1..(Len(EnumBytes) - 1) : EnumBytes[i] < EnumBytes[i + 1]
    /\ Len(EnumBytes) = n
    /\ \A i \in 1..Len(EnumBytes) : EnumIds[i] = table[EnumBytes[i] + 1] /\ EnumIds[i] # 0

ClassOK ==
  Alive => CASE kind = "n4" -> n <= 4 [] kind = "n16" -> n <= 16 [] kind = "n48" -> n <= 48 [] OTHER -> n <= 256

=============================================================================
