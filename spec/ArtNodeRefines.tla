--------------------------- MODULE ArtNodeRefines ---------------------------
(***************************************************************************)
(* The raw-lane node model (ArtNode, L2) implements the node abstraction   *)
(* the tree model works with (ArtTree, L1).                                *)
(*                                                                         *)
(* L1 treats an inner node as a size class plus a sorted sequence of       *)
(* (branch byte, child) pairs, changed by AddChild / RemoveChild.  L2      *)
(* stores packed lanes with stale bytes, a slot index, a direct table.     *)
(* This module steps both side by side: g is the L1 node obtained by       *)
(* applying L1's own AddChild / RemoveChild for every Add / Remove of L2,  *)
(* and Refines says that L2's enumeration (bytes and children in iterator  *)
(* order) and its size class are exactly g's - for every reachable raw     *)
(* state, i.e. whatever the unoccupied lanes hold.                         *)
(***************************************************************************)
EXTENDS ArtNode

VARIABLE g

L1 == INSTANCE ArtTree WITH
        Keys <- <<>>, Family <- "alpha", RangeBad <- {}, EmitEdges <- FALSE, MaxDepth <- 0, Ramp <- FALSE, StartFull <- FALSE, ProtectEnds <- TRUE, FillCap <- 0, DrainFloor <- 0,
        CovOn <- FALSE, SizeOnSplit <- TRUE, RangeDepth <- "perPath", SearchGuard <- TRUE, LcpBranch <- TRUE,
        KCounter <- "perIteration", tree <- g, size <- n, m <- table, h <- h, lastOK <- TRUE, phase <- "fill"

Leaf(b) == L1!MkLeaf(Id(b), <<b>>, 1)

RInit == Init /\ g = L1!MkInner("n4", 0, <<>>, <<>>, <<>>)

RNext ==
  \/ \E b \in Alphabet : Add(b) /\ g' = L1!AddChild(g, b, Leaf(b))
  \/ \E b \in Alphabet : Remove(b) /\ g' = L1!RemoveChild(g, L1!FindIdx(g, b))

RSpec == RInit /\ [][RNext]_<<vars, g>>
RView == <<kind, n, lanes, kids, idx, table>>

Refines ==
  Alive =>
    /\ g.kind = kind
    /\ g.bytes = EnumBytes
    /\ [i \in 1..Len(g.ch) |-> g.ch[i].k] = EnumIds
(* when the 4-slot node collapses, L1's RemoveChild hands back the last child *)
CollapseOK == (kind = "gone") => (g.kind = "leaf")
=============================================================================
