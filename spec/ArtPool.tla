------------------------------- MODULE ArtPool -------------------------------
(***************************************************************************)
(* L2 - the node-recycling protocol shared by all trees (C12, C16).        *)
(*                                                                         *)
(* Interior nodes of each size class are recycled through one global pool  *)
(* per class - the ONLY state trees share.  A grow / shrink / merge /      *)
(* split step of a tree takes a node from the pool (or a fresh one),       *)
(* fills it, LINKS it in place of the old node, then CLEARS the old node   *)
(* and PUTS it back.  The model tracks, per node id: who owns it, whether  *)
(* it holds data (dirty) and whether it is linked into a tree; and per     *)
(* process the step of the replacement it is executing.                    *)
(*                                                                         *)
(* One process  (Procs = {p}, several trees): C12 - operations of          *)
(* different trees interleave only between whole operations.               *)
(* Several processes, one private tree each: C16 - steps interleave        *)
(* freely; the pool's Get and Put are atomic (sync.Pool).                  *)
(*                                                                         *)
(* Switches (defaults = what the code does):                               *)
(*   ClearBeforePut  a released node is zeroed before it enters the pool   *)
(*   PutAfterLink    the old node is released only after its replacement   *)
(*                   has been linked                                       *)
(*   AtomicPool      Get is one atomic step                                *)
(***************************************************************************)
EXTENDS Integers, FiniteSets, TLC

CONSTANTS Nodes, Trees, Procs, ClearBeforePut, PutAfterLink, AtomicPool

VARIABLES
  where,     \* where[n] \in {"fresh", "pool", "held"}: not yet allocated / in the pool / taken out
  holder,    \* holder[n]: the tree that took n out of the pool (or "none")
  dirty,     \* dirty[n]: n holds data
  linked,    \* linked[n]: the tree n is reachable from (or "none")
  pc,        \* pc[p]: step of the replacement process p is executing
  cur,       \* cur[p]: [tree, old, new] of that replacement
  peek,      \* peek[p]: node seen by a non-atomic Get (AtomicPool = FALSE)
  leaked     \* some tree received a node that still held another tree's data

vars == <<where, holder, dirty, linked, pc, cur, peek, leaked>>

None == "none"

CONSTANT Owner      \* Owner[p]: set of trees process p operates on

Init ==
  /\ where = [n \in Nodes |-> "fresh"]
  /\ holder = [n \in Nodes |-> None]
  /\ dirty = [n \in Nodes |-> FALSE]
  /\ linked = [n \in Nodes |-> None]
  /\ pc = [p \in Procs |-> "idle"]
  /\ cur = [p \in Procs |-> [tree |-> None, old |-> None, new |-> None]]
  /\ peek = [p \in Procs |-> None]
  /\ leaked = FALSE

(* a tree starts with a fresh root node: allocate, fill, link (one atomic operation of its process) *)
Plant(p, t, n) ==
  /\ pc[p] = "idle" /\ t \in Owner[p]
  /\ where[n] = "fresh"
  /\ \A x \in Nodes : linked[x] # t
  /\ where' = [where EXCEPT ![n] = "held"]
  /\ holder' = [holder EXCEPT ![n] = t]
  /\ dirty' = [dirty EXCEPT ![n] = TRUE]
  /\ linked' = [linked EXCEPT ![n] = t]
  /\ UNCHANGED <<pc, cur, peek, leaked>>

(* begin replacing the linked node old of tree t (grow / shrink) *)
Begin(p, t, old) ==
  /\ pc[p] = "idle" /\ t \in Owner[p]
  /\ linked[old] = t
  /\ cur' = [cur EXCEPT ![p] = [tree |-> t, old |-> old, new |-> None]]
  /\ pc' = [pc EXCEPT ![p] = IF PutAfterLink THEN "get" ELSE "put-early"]
  /\ UNCHANGED <<where, holder, dirty, linked, peek, leaked>>

(* deviation: the old node is released first *)
PutEarly(p) ==
  /\ pc[p] = "put-early"
  /\ LET o == cur[p].old IN
     /\ where' = [where EXCEPT ![o] = "pool"]
     /\ dirty' = [dirty EXCEPT ![o] = IF ClearBeforePut THEN FALSE ELSE @]
     /\ holder' = [holder EXCEPT ![o] = None]
  /\ pc' = [pc EXCEPT ![p] = "get"]
  /\ UNCHANGED <<linked, cur, peek, leaked>>

Take(p, n) ==
  /\ where' = [where EXCEPT ![n] = "held"]
  /\ holder' = [holder EXCEPT ![n] = cur[p].tree]
  /\ leaked' = (leaked \/ dirty[n] \/ linked[n] # None \/ where[n] = "held")
  /\ cur' = [cur EXCEPT ![p].new = n]
  /\ pc' = [pc EXCEPT ![p] = "fill"]

Get(p) ==
  /\ pc[p] = "get"
  /\ IF AtomicPool
     THEN \E n \in Nodes : where[n] \in {"pool", "fresh"} /\ Take(p, n) /\ UNCHANGED peek
     ELSE \E n \in Nodes : where[n] \in {"pool", "fresh"}
             /\ peek' = [peek EXCEPT ![p] = n] /\ pc' = [pc EXCEPT ![p] = "get2"]
             /\ UNCHANGED <<where, holder, leaked, cur>>
  /\ UNCHANGED <<dirty, linked>>

(* second half of a non-atomic Get: the node seen earlier is taken without looking again *)
Get2(p) ==
  /\ pc[p] = "get2"
  /\ Take(p, peek[p])
  /\ UNCHANGED <<dirty, linked, peek>>

Fill(p) ==
  /\ pc[p] = "fill"
  /\ dirty' = [dirty EXCEPT ![cur[p].new] = TRUE]
  /\ pc' = [pc EXCEPT ![p] = "link"]
  /\ UNCHANGED <<where, holder, linked, cur, peek, leaked>>

Link(p) ==
  /\ pc[p] = "link"
  /\ linked' = [linked EXCEPT ![cur[p].new] = cur[p].tree, ![cur[p].old] = None]
  /\ pc' = [pc EXCEPT ![p] = IF PutAfterLink THEN "release" ELSE "idle"]
  /\ UNCHANGED <<where, holder, dirty, cur, peek, leaked>>

Release(p) ==
  /\ pc[p] = "release"
  /\ LET o == cur[p].old IN
     /\ dirty' = [dirty EXCEPT ![o] = IF ClearBeforePut THEN FALSE ELSE @]
     /\ where' = [where EXCEPT ![o] = "pool"]
     /\ holder' = [holder EXCEPT ![o] = None]
  /\ pc' = [pc EXCEPT ![p] = "idle"]
  /\ UNCHANGED <<linked, cur, peek, leaked>>

(* the runtime may drop pooled nodes at any time (sync.Pool is a cache) *)
Drop(n) ==
  /\ where[n] = "pool"
  /\ where' = [where EXCEPT ![n] = "fresh"]
  /\ dirty' = [dirty EXCEPT ![n] = FALSE]
  /\ UNCHANGED <<holder, linked, pc, cur, peek, leaked>>

Next ==
  \/ \E p \in Procs : \E t \in Trees : \E n \in Nodes : Plant(p, t, n) \/ Begin(p, t, n)
  \/ \E p \in Procs : PutEarly(p) \/ Get(p) \/ Get2(p) \/ Fill(p) \/ Link(p) \/ Release(p)
  \/ \E n \in Nodes : Drop(n)

Spec == Init /\ [][Next]_vars

-----------------------------------------------------------------------------
(* nothing reachable from a tree is in the pool *)
LinkedNotPooled == \A n \in Nodes : linked[n] # None => where[n] = "held"
(* every node waiting in the pool is clean *)
PooledClean == \A n \in Nodes : where[n] = "pool" => ~dirty[n]
(* a node belongs to at most one tree: the one that took it out *)
SingleOwner == \A n \in Nodes : linked[n] # None => holder[n] = linked[n]
(* no tree ever received a node carrying state (data or links) of another use *)
NoLeak == ~leaked

=============================================================================
