---------------------------- MODULE ArtPoolProof ----------------------------
(***************************************************************************)
(* The recycling protocol is safe for ANY number of nodes, trees and       *)
(* processes (TLAPS).  TLC checks ArtPool exhaustively for 4 nodes and     *)
(* 2-3 trees; this module proves, for the protocol as the code runs it     *)
(* (clear before put, put after link, atomic pool), that the four safety   *)
(* properties are invariants of the specification - by an inductive        *)
(* invariant that also says what every process may assume about the nodes  *)
(* it is working on.  Processes operate on pairwise disjoint sets of trees *)
(* (C12: one process; C16: one private tree per goroutine).                *)
(***************************************************************************)
EXTENDS ArtPool, TLAPS

ASSUME Defaults == ClearBeforePut = TRUE /\ PutAfterLink = TRUE /\ AtomicPool = TRUE
ASSUME NoneNotTree == None \notin Trees /\ None \notin Nodes
ASSUME OwnerOK == /\ Owner \in [Procs -> SUBSET Trees]
                  /\ \A p, q \in Procs : p # q => Owner[p] \cap Owner[q] = {}

PCs == {"idle", "get", "fill", "link", "release"}

TypeOK ==
  /\ where \in [Nodes -> {"fresh", "pool", "held"}]
  /\ holder \in [Nodes -> Trees \cup {None}]
  /\ dirty \in [Nodes -> BOOLEAN]
  /\ linked \in [Nodes -> Trees \cup {None}]
  /\ pc \in [Procs -> PCs]
  /\ cur \in [Procs -> [tree : Trees \cup {None}, old : Nodes \cup {None}, new : Nodes \cup {None}]]
  /\ peek \in [Procs -> Nodes \cup {None}]
  /\ leaked \in BOOLEAN

(* a node that is not taken out is clean, unlinked and nobody's *)
Idle(n) == where[n] # "held" => (linked[n] = None /\ holder[n] = None /\ ~dirty[n])

ProcOK(p) ==
  /\ pc[p] # "idle" =>
        /\ cur[p].tree \in Owner[p]
        /\ cur[p].old \in Nodes
        /\ where[cur[p].old] = "held"
        /\ holder[cur[p].old] = cur[p].tree
  /\ pc[p] \in {"get", "fill", "link"} => linked[cur[p].old] = cur[p].tree
  /\ pc[p] = "release" => linked[cur[p].old] = None
  /\ pc[p] \in {"fill", "link", "release"} =>
        /\ cur[p].new \in Nodes
        /\ where[cur[p].new] = "held"
        /\ holder[cur[p].new] = cur[p].tree
        /\ cur[p].new # cur[p].old
  /\ pc[p] \in {"fill", "link"} => linked[cur[p].new] = None
  /\ pc[p] = "release" => linked[cur[p].new] = cur[p].tree

Inv ==
  /\ TypeOK
  /\ \A n \in Nodes : Idle(n)
  /\ \A n \in Nodes : linked[n] # None => holder[n] = linked[n]
  /\ \A p \in Procs : ProcOK(p)
  /\ ~leaked

THEOREM InitInv == Init => Inv
  BY Defaults, NoneNotTree, OwnerOK DEF Init, Inv, TypeOK, Idle, ProcOK, PCs, None

THEOREM InvSafe == Inv => (LinkedNotPooled /\ PooledClean /\ SingleOwner /\ NoLeak)
  BY DEF Inv, Idle, LinkedNotPooled, PooledClean, SingleOwner, NoLeak

THEOREM NextInv == Inv /\ [Next]_vars => Inv'
<1> SUFFICES ASSUME Inv, [Next]_vars PROVE Inv'
  OBVIOUS
<1> USE Defaults, NoneNotTree, OwnerOK DEF Inv, TypeOK, Idle, ProcOK, PCs, None
<1>1. ASSUME NEW p \in Procs, NEW t \in Trees, NEW n \in Nodes, Plant(p, t, n) PROVE Inv'
  BY <1>1 DEF Plant
<1>2. ASSUME NEW p \in Procs, NEW t \in Trees, NEW n \in Nodes, Begin(p, t, n) PROVE Inv'
  BY <1>2 DEF Begin
<1>3. ASSUME NEW p \in Procs, PutEarly(p) PROVE Inv'
  BY <1>3 DEF PutEarly
<1>4. ASSUME NEW p \in Procs, Get(p) PROVE Inv'
  BY <1>4 DEF Get, Take
<1>5. ASSUME NEW p \in Procs, Get2(p) PROVE Inv'
  BY <1>5 DEF Get2, Take
<1>6. ASSUME NEW p \in Procs, Fill(p) PROVE Inv'
  BY <1>6 DEF Fill
<1>7. ASSUME NEW p \in Procs, Link(p) PROVE Inv'
  <2>1. \A q \in Procs : (q # p /\ pc[q] # "idle") => cur[q].tree # cur[p].tree
    BY <1>7 DEF Link
  <2>2. \A q \in Procs : (q # p /\ pc[q] # "idle") => (cur[q].old # cur[p].old /\ cur[q].old # cur[p].new)
    BY <1>7, <2>1 DEF Link
  <2>3. \A q \in Procs : (q # p /\ pc[q] \in {"fill", "link", "release"}) => (cur[q].new # cur[p].old /\ cur[q].new # cur[p].new)
    BY <1>7, <2>1 DEF Link
  <2>4. \A q \in Procs : q # p => ProcOK(q)'
    BY <1>7, <2>2, <2>3 DEF Link
  <2>5. ProcOK(p)'
    BY <1>7 DEF Link
  <2> QED BY <1>7, <2>4, <2>5 DEF Link
<1>8. ASSUME NEW p \in Procs, Release(p) PROVE Inv'
  <2>1. \A q \in Procs : (q # p /\ pc[q] # "idle") => cur[q].tree # cur[p].tree
    BY <1>8 DEF Release
  <2>2. \A q \in Procs : (q # p /\ pc[q] # "idle") => cur[q].old # cur[p].old
    BY <1>8, <2>1 DEF Release
  <2>3. \A q \in Procs : (q # p /\ pc[q] \in {"fill", "link", "release"}) => cur[q].new # cur[p].old
    BY <1>8, <2>1 DEF Release
  <2>4. \A q \in Procs : q # p => ProcOK(q)'
    BY <1>8, <2>2, <2>3 DEF Release
  <2>5. ProcOK(p)'
    BY <1>8 DEF Release
  <2> QED BY <1>8, <2>4, <2>5 DEF Release
<1>9. ASSUME NEW n \in Nodes, Drop(n) PROVE Inv'
  BY <1>9 DEF Drop
<1>10. CASE UNCHANGED vars
  BY <1>10 DEF vars
<1> QED BY <1>1, <1>2, <1>3, <1>4, <1>5, <1>6, <1>7, <1>8, <1>9, <1>10 DEF Next

THEOREM Safety == Spec => [](LinkedNotPooled /\ PooledClean /\ SingleOwner /\ NoLeak)
<1>1. Inv /\ UNCHANGED vars => Inv'
  BY DEF Inv, TypeOK, Idle, ProcOK, vars
<1> QED BY InitInv, NextInv, InvSafe, PTL DEF Spec
=============================================================================
