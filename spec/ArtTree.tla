------------------------------- MODULE ArtTree -------------------------------
(***************************************************************************)
(* L1 - an implementation-shaped model of one go-art tree.                 *)
(*                                                                         *)
(* One operator per code path of Insert / Delete / Search, the iterators,  *)
(* rangeScan (as the explicit stack machine it is), lowestCommonParent,    *)
(* topK/bottomK, grow / shrink / merge / split - with the real constants   *)
(* (10-byte inline compressed path, capacities 4/16/48/256, shrink at      *)
(* 3/12/37).  The tree is a nested value in the dump format of ArtWF, with *)
(* inline path bytes normalised to the meaningful Min(plen, InlineMax).    *)
(*                                                                         *)
(* TLC checks, in every reachable state and for ALL arguments from the     *)
(* universe, that the model refines L0 (ArtMap) and keeps the index        *)
(* well-formed and canonical (ArtWF).  Each transition is also printed as  *)
(* one implementation test (EmitEdges) that the harness replays on the     *)
(* real trees; model drift is measured there, verdicts come from ArtMap.   *)
(*                                                                         *)
(* Named deviations (CONSTANT switches) keep behaviours the pinned commit  *)
(* had, so that every invariant is demonstrably falsifiable.               *)
(***************************************************************************)
EXTENDS Integers, Sequences, FiniteSets, TLC, Json, ArtMap, ArtWF

CONSTANTS
  Keys,          \* universe by rank: sequence of [t |-> transformed bytes, o |-> original bytes, probe |-> BOOLEAN]
  Family,        \* "alpha" | "unsigned" | "signed" | "float" | "compound" | "collation"
  RangeBad,      \* set of <<a, b>> bound pairs outside the Range domain (float carve-outs)
  EmitEdges,     \* print one JSON test per transition
  MaxDepth,      \* 0 = unbounded (closed BFS); > 0 bounds behaviours (simulation) and prints them at that depth
  Ramp,          \* simulation only: fill/drain phases that push fan-outs through every threshold
  StartFull,     \* simulation only: behaviours start from the tree holding every insertable key (drain first)
  ProtectEnds,   \* simulation only: TRUE = smallest / largest key inserted first and deleted last; FALSE = extremes deleted eagerly
  FillCap,       \* simulation only: a fill phase ends at this many keys (0 = all insertable keys): a node that gets FULL but never grows
  DrainFloor,    \* simulation only: a drain phase ends at this many keys, so the drained node lives on into the next fill
  CovOn,         \* count how often each tagged code path of the model is evaluated (vacuity report; one worker)
  \* deviations; the defaults describe the current (repaired) tree
  SizeOnSplit,   \* TRUE: compressed-path split counts the new key (D3 fixed)
  RangeDepth,    \* "perPath" (D4 fixed) | "perScan"
  SearchGuard,   \* TRUE: depth is bounds-checked after an optimistic skip (D1 fixed)
  LcpBranch,     \* TRUE: lowestCommonParent follows the branch byte (D6/D7 fixed)
  KCounter       \* "perIteration" (D8 fixed) | "perSequence"

InlineMax == 10

(* Branch counters for the vacuity report: Cov(i, v) is v; with CovOn it also bumps TLC register i. *)
CovNames == <<"leaf split", "path split, inline path", "path split, path longer than the inline limit",
              "insert: key exhausted (not prefix-free)", "overwrite", "add child without growing", "grow to the next size class",
              "delete: node4 collapses into a leaf child", "delete: node4 merged into an inner child", "shrink to a smaller size class",
              "optimistic part of a path compared through the minimum leaf", "search: inline path mismatch",
              "search: key ends inside an optimistic path (guard)", "search: no child under the byte", "delete: miss",
              "range scan: subtree pruned", "range scan: early stop after the end bound", "range scan: leaf below the start bound",
              "prefix: diverges inside a compressed path", "prefix: ends inside a compressed path", "prefix: no child under the byte",
              "prefix: descent reaches a leaf">>
Cov(i, v) == IF CovOn THEN (IF TLCSet(i, TLCGet(i) + 1) THEN v ELSE v) ELSE v
CovInit == \A i \in 1..Len(CovNames) : TLCSet(i, 0)
CovReport == PrintT(<<"COV", ToJson([i \in 1..Len(CovNames) |-> TLCGet(i)])>>)

N == Len(Keys)
T(k) == Keys[k].t
O(k) == Keys[k].o
Insertable == {k \in 1..N : ~Keys[k].probe}
OTable == [k \in 1..N |-> Keys[k].o]

HasPrefixOp == Family \in {"alpha", "collation"}
HasRangeOp  == Family # "collation"

VARIABLES
  tree,    \* the index (ArtWF dump format)
  size,    \* the size counter
  m,       \* ghost: the L0 map
  h,       \* history that produced this state (not part of the VIEW)
  lastOK,  \* the result of the last Delete agreed with L0
  phase    \* ramp phase (simulation)

vars == <<tree, size, m, h, lastOK, phase>>
View == <<tree, size, m>>

-----------------------------------------------------------------------------
(* byte-sequence helpers *)

Drop(s, n) == SubSeq(s, n + 1, Len(s))
TakeN(s, n) == SubSeq(s, 1, Min2(n, Len(s)))

(* smallest j in lo..hi-1 with P(j), else hi *)
FirstIdx(lo, hi, P(_)) ==
  IF \E j \in lo..(hi - 1) : P(j)
  THEN CHOOSE j \in lo..(hi - 1) : P(j) /\ \A i \in lo..(j - 1) : ~P(i)
  ELSE hi

(* longestCommonPrefix(key, other, depth): equal bytes from offset depth (0-based) *)
LCPFrom(a, b, depth) ==
  LET mx == Min2(Len(a), Len(b))
  IN  IF depth >= mx THEN 0
      ELSE FirstIdx(depth, mx, LAMBDA j : a[j + 1] # b[j + 1]) - depth

(* bytes.Compare *)
LexLess(a, b) ==
  LET mx == Min2(Len(a), Len(b))
      j  == FirstIdx(0, mx, LAMBDA i : a[i + 1] # b[i + 1])
  IN  IF j < mx THEN a[j + 1] < b[j + 1] ELSE Len(a) < Len(b)

-----------------------------------------------------------------------------
(* node helpers *)

FindIdx(nd, b) ==
  IF \E i \in 1..Len(nd.bytes) : nd.bytes[i] = b
  THEN CHOOSE i \in 1..Len(nd.bytes) : nd.bytes[i] = b
  ELSE 0

RECURSIVE MinLeaf(_)
MinLeaf(nd) == IF nd.kind = "leaf" THEN nd ELSE MinLeaf(nd.ch[1])

RECURSIVE MaxLeaf(_)
MaxLeaf(nd) == IF nd.kind = "leaf" THEN nd ELSE MaxLeaf(nd.ch[Len(nd.ch)])

NextKind(kind) == CASE kind = "n4" -> "n16" [] kind = "n16" -> "n48" [] OTHER -> "n256"

SeqInsert(s, i, x) == SubSeq(s, 1, i - 1) \o <<x>> \o SubSeq(s, i, Len(s))
SeqRemove(s, i)    == SubSeq(s, 1, i - 1) \o SubSeq(s, i + 1, Len(s))

(* addChild: sorted position (insertPosNode4/16, index of node48, slot of node256); *)
(* a full node is first copied into the next size class                            *)
AddChild(nd, b, child) ==
  LET pos  == FirstIdx(1, Len(nd.bytes) + 1, LAMBDA i : nd.bytes[i] > b)
      kind == IF Len(nd.ch) >= Cap(nd.kind) THEN Cov(7, NextKind(nd.kind)) ELSE Cov(6, nd.kind)
  IN  MkInner(kind, nd.plen, nd.pfx, SeqInsert(nd.bytes, pos, b), SeqInsert(nd.ch, pos, child))

ReplaceChild(nd, i, child) == [nd EXCEPT !.ch[i] = child]

(* deleteChild: shrink 16->4 at 3, 48->16 at 12, 256->48 at 37; a node4 left with *)
(* one child is merged into that child (compressed paths concatenated)             *)
RemoveChild(nd, i) ==
  LET bs == SeqRemove(nd.bytes, i)
      cs == SeqRemove(nd.ch, i)
      n  == Len(cs)
  IN  IF nd.kind = "n4" /\ n = 1
      THEN LET c == cs[1]
           IN  IF c.kind = "leaf" THEN Cov(8, c)
               ELSE LET np == Cov(9, c.plen + nd.plen + 1)
                    IN  [c EXCEPT !.plen = np,
                                  !.pfx = TakeN(nd.pfx \o <<bs[1]>> \o c.pfx, Min2(InlineMax, np))]
      ELSE LET kind == CASE nd.kind = "n16" /\ n = 3 -> Cov(10, "n4")
                         [] nd.kind = "n48" /\ n = 12 -> Cov(10, "n16")
                         [] nd.kind = "n256" /\ n = 37 -> Cov(10, "n48")
                         [] OTHER -> nd.kind
           IN  MkInner(kind, nd.plen, nd.pfx, bs, cs)

(* checkPrefix: inline bytes only *)
CheckPrefix(nd, key, depth) ==
  LET mx == Min2(Min2(nd.plen, InlineMax), Len(key) - depth)
  IN  FirstIdx(0, mx, LAMBDA j : nd.pfx[j + 1] # key[depth + j + 1])

(* prefixMismatch: inline bytes, then the minimum leaf for the optimistic part *)
PrefixMismatch(nd, key, depth) ==
  LET mx   == Min2(Min2(InlineMax, nd.plen), Len(key) - depth)
      idx1 == FirstIdx(0, mx, LAMBDA j : nd.pfx[j + 1] # key[depth + j + 1])
  IN  IF idx1 < mx THEN idx1
      ELSE IF nd.plen > InlineMax
      THEN LET lk  == Cov(11, MinLeaf(nd).tk)
               mx2 == Min2(Len(lk), Len(key)) - depth
           IN  IF mx2 <= idx1 THEN idx1
               ELSE FirstIdx(idx1, mx2, LAMBDA j : lk[depth + j + 1] # key[depth + j + 1])
      ELSE idx1

-----------------------------------------------------------------------------
(* Insert *)

Res(t, added) == [t |-> t, added |-> added]

LeafSplit(nd, key, k, depth) ==
  LET lk    == nd.tk
      lcp   == LCPFrom(lk, key, depth)
      split == depth + lcp
      n0    == Cov(1, MkInner("n4", lcp, TakeN(Drop(key, depth), Min2(lcp, InlineMax)), <<>>, <<>>))
      n1    == IF split < Len(lk) THEN AddChild(n0, lk[split + 1], nd) ELSE n0
      n2    == IF split < Len(key) THEN AddChild(n1, key[split + 1], MkLeaf(k, key, 1)) ELSE n1
  IN  Res(n2, TRUE)

PathSplit(nd, key, k, depth, pd) ==
  LET short == nd.plen <= InlineMax
      np    == nd.plen - (pd + 1)
      lk    == MinLeaf(nd).tk
      b     == IF short THEN nd.pfx[pd + 1] ELSE lk[depth + pd + 1]
      old   == IF short
               THEN Cov(2, [nd EXCEPT !.plen = np, !.pfx = Drop(nd.pfx, pd + 1)])
               ELSE Cov(3, [nd EXCEPT !.plen = np, !.pfx = TakeN(Drop(lk, depth + pd + 1), Min2(np, InlineMax))])
      n0    == MkInner("n4", pd, TakeN(nd.pfx, Min2(pd, InlineMax)), <<b>>, <<old>>)
  IN  IF depth + pd >= Len(key)
      THEN Cov(4, Res(n0, FALSE))      \* key exhausted inside the path (not prefix-free): dropped
      ELSE Res(AddChild(n0, key[depth + pd + 1], MkLeaf(k, key, 1)), SizeOnSplit)

RECURSIVE InsAt(_, _, _, _)
InsAt(nd, key, k, depth) ==
  IF nd.kind = "leaf"
  THEN IF nd.k = k THEN Cov(5, Res(nd, FALSE))       \* same key (identity, not transformed bytes): only the value changes
       ELSE LeafSplit(nd, key, k, depth)
  ELSE LET pd == IF nd.plen # 0 THEN PrefixMismatch(nd, key, depth) ELSE 0
       IN  IF nd.plen # 0 /\ pd < nd.plen
           THEN PathSplit(nd, key, k, depth, pd)
           ELSE LET d2 == depth + nd.plen
                IN  IF d2 >= Len(key) THEN Cov(4, Res(nd, FALSE))      \* key exhausted: dropped
                    ELSE LET i == FindIdx(nd, key[d2 + 1])
                         IN  IF i # 0
                             THEN LET r == InsAt(nd.ch[i], key, k, d2 + 1)
                                  IN  Res(ReplaceChild(nd, i, r.t), r.added)
                             ELSE Res(AddChild(nd, key[d2 + 1], MkLeaf(k, key, 1)), TRUE)

InsTop(tr, k) ==
  IF tr.kind = "empty" THEN Res(MkLeaf(k, T(k), 1), TRUE)
  ELSE InsAt(tr, T(k), k, 0)

-----------------------------------------------------------------------------
(* Search / Delete *)

PathOK(nd, key, depth) ==
  nd.plen = 0 \/ CheckPrefix(nd, key, depth) = Min2(InlineMax, nd.plen)

(* rank found, 0 = absent, -1 = the real code would index past the key (panic) *)
(* The final comparison at a leaf is on the key's IDENTITY (rank): for the generated kinds that is the transformed *)
(* bytes themselves, for collation trees the original string - two strings may share a collation key.            *)
RECURSIVE SearchAt(_, _, _, _)
SearchAt(nd, key, k, depth) ==
  IF nd.kind = "leaf" THEN (IF nd.k = k THEN nd.k ELSE 0)
  ELSE IF ~PathOK(nd, key, depth) THEN Cov(12, 0)
  ELSE LET d2 == depth + nd.plen
       IN  IF d2 >= Len(key) THEN Cov(13, IF SearchGuard THEN 0 ELSE -1)
           ELSE LET i == FindIdx(nd, key[d2 + 1])
                IN  IF i = 0 THEN Cov(14, 0) ELSE SearchAt(nd.ch[i], key, k, d2 + 1)

SearchTop(tr, k) == IF tr.kind = "empty" THEN 0 ELSE SearchAt(tr, T(k), k, 0)

DRes(t, res) == [t |-> t, res |-> res]

RECURSIVE DelAt(_, _, _, _)
DelAt(nd, key, k, depth) ==
  IF ~PathOK(nd, key, depth) THEN Cov(15, DRes(nd, FALSE))
  ELSE LET d2 == depth + nd.plen
       IN  IF d2 >= Len(key) THEN DRes(nd, FALSE)
           ELSE LET i == FindIdx(nd, key[d2 + 1])
                IN  IF i = 0 THEN DRes(nd, FALSE)
                    ELSE LET c == nd.ch[i]
                         IN  IF c.kind = "leaf"
                             THEN IF c.k = k THEN DRes(RemoveChild(nd, i), TRUE) ELSE DRes(nd, FALSE)
                             ELSE LET r == DelAt(c, key, k, d2 + 1)
                                  IN  IF r.res THEN DRes(ReplaceChild(nd, i, r.t), TRUE) ELSE DRes(nd, FALSE)

DelTop(tr, k) ==
  IF tr.kind = "empty" THEN DRes(tr, FALSE)
  ELSE IF tr.kind = "leaf" THEN (IF tr.k = k THEN DRes(EmptyTree, TRUE) ELSE DRes(tr, FALSE))
  ELSE DelAt(tr, T(k), k, 0)

-----------------------------------------------------------------------------
(* Iteration: explicit-stack DFS.  A stack is a sequence whose LAST element is *)
(* the top, exactly as the slices in tree.go.                                  *)

PushRev(stack, ch) == stack \o [i \in 1..Len(ch) |-> ch[Len(ch) + 1 - i]]   \* all(): last child pushed first
PushFwd(stack, ch) == stack \o ch                                           \* backward()

RECURSIVE AllLoop(_, _)
AllLoop(stack, acc) ==
  IF stack = <<>> THEN acc
  ELSE LET nd == stack[Len(stack)]
           rest == SubSeq(stack, 1, Len(stack) - 1)
       IN  IF nd.kind = "leaf" THEN AllLoop(rest, Append(acc, nd.k))
           ELSE AllLoop(PushRev(rest, nd.ch), acc)

RECURSIVE BackLoop(_, _)
BackLoop(stack, acc) ==
  IF stack = <<>> THEN acc
  ELSE LET nd == stack[Len(stack)]
           rest == SubSeq(stack, 1, Len(stack) - 1)
       IN  IF nd.kind = "leaf" THEN BackLoop(rest, Append(acc, nd.k))
           ELSE BackLoop(PushFwd(rest, nd.ch), acc)

AllL1(tr)      == IF tr.kind = "empty" THEN <<>> ELSE AllLoop(<<tr>>, <<>>)
BackwardL1(tr) == IF tr.kind = "empty" THEN <<>> ELSE BackLoop(<<tr>>, <<>>)

MinL1(tr) == IF tr.kind = "empty" THEN 0 ELSE MinLeaf(tr).k
MaxL1(tr) == IF tr.kind = "empty" THEN 0 ELSE MaxLeaf(tr).k

(* filter(): the same DFS with a predicate on the leaf *)
RECURSIVE FilterLoop(_, _, _)
FilterLoop(stack, acc, pb) ==            \* predicate: the original key starts with pb
  IF stack = <<>> THEN acc
  ELSE LET nd == stack[Len(stack)]
           rest == SubSeq(stack, 1, Len(stack) - 1)
       IN  IF nd.kind = "leaf"
           THEN FilterLoop(rest, IF IsPrefixOf(pb, O(nd.k)) THEN Append(acc, nd.k) ELSE acc, pb)
           ELSE FilterLoop(PushRev(rest, nd.ch), acc, pb)

-----------------------------------------------------------------------------
(* topK / bottomK with the explicit counter; a sequence VALUE carries its      *)
(* captured counter, a pass returns what it yielded and the counter afterwards *)

RECURSIVE KLoop(_, _, _, _)
KLoop(src, i, remaining, stop) ==     \* src: the underlying full pass; stop: consumer stops after this many
  IF i > Len(src) \/ remaining = 0 THEN [out |-> <<>>, rem |-> remaining]
  ELSE IF stop = 1 THEN [out |-> <<src[i]>>, rem |-> remaining]         \* yield returned false: break before the decrement
  ELSE LET r == KLoop(src, i + 1, remaining - 1, stop - 1)
       IN  [out |-> <<src[i]>> \o r.out, rem |-> r.rem]

KPass(src, captured, stop) ==
  IF captured = 0 THEN [out |-> <<>>, rem |-> 0]
  ELSE KLoop(src, 1, captured, stop)

(* two consecutive passes over one sequence value; the first stopped at stop1 *)
KSecondPass(src, n, stop1) ==
  LET p1 == KPass(src, n, stop1)
      c2 == IF KCounter = "perSequence" THEN p1.rem ELSE n
  IN  KPass(src, c2, N + 2).out

TopKL1(tr, n)    == KPass(BackwardL1(tr), n, N + 2).out
BottomKL1(tr, n) == KPass(AllL1(tr), n, N + 2).out

-----------------------------------------------------------------------------
(* rangeScan: stack of [nd, d]; one depth per entry ("perPath") or one per scan *)

LCP0(a, b) == LCPFrom(a, b, 0)

RECURSIVE ScanLoop(_, _, _, _, _, _)
ScanLoop(stack, gdepth, acc, start, end, search) ==
  IF stack = <<>> THEN acc
  ELSE LET e    == stack[Len(stack)]
           nd   == e.nd
           rest == SubSeq(stack, 1, Len(stack) - 1)
       IN  IF nd.kind = "leaf"
           THEN IF LexLess(nd.tk, start) THEN Cov(18, ScanLoop(rest, gdepth, acc, start, end, search))
                ELSE IF LexLess(end, nd.tk) THEN Cov(17, acc)               \* break: nothing further can be in range
                ELSE ScanLoop(rest, gdepth, Append(acc, nd.k), start, end, search)
           ELSE LET depth == IF RangeDepth = "perScan" THEN gdepth ELSE e.d
                    cmp   == SubSeq(search, depth + 1, depth + Min2(Len(search) - depth, InlineMax))
                    prune == /\ nd.plen > 0
                             /\ depth < Len(search)
                             /\ LCP0(nd.pfx, cmp) = 0
                    cd    == depth + nd.plen + 1
                    kids  == [i \in 1..Len(nd.ch) |-> [nd |-> nd.ch[Len(nd.ch) + 1 - i], d |-> cd]]
                IN  IF prune THEN Cov(16, ScanLoop(rest, gdepth, acc, start, end, search))
                    ELSE ScanLoop(rest \o kids, cd, acc, start, end, search)

RangeScan(tr, start, end) ==
  IF tr.kind = "empty" THEN <<>>
  ELSE LET idx == LCP0(start, end)
           search == SubSeq(start, 1, idx)
       IN  ScanLoop(<<[nd |-> tr, d |-> 0]>>, 0, <<>>, start, end, search)

(* rangeScan as the COLLATION tree uses it: subtrees are pruned with the common prefix of the two bounds' SORT   *)
(* keys, but a leaf is kept or the scan stopped by comparing ORIGINAL strings bytewise (OT: rank -> original).    *)
(* The result has no meaning in terms of the ordered map (C03 carves it out); it is specified here as what it is *)
(* - "the leaves in collation order from the unpruned subtrees, skipping those whose original string is bytewise *)
(* below the start, up to the first one bytewise above the end" - and compared with the real tree as drift.      *)
RECURSIVE ScanLoopC(_, _, _, _, _, _)
ScanLoopC(stack, acc, start, end, search, OT) ==
  IF stack = <<>> THEN acc
  ELSE LET e    == stack[Len(stack)]
           nd   == e.nd
           rest == SubSeq(stack, 1, Len(stack) - 1)
       IN  IF nd.kind = "leaf"
           THEN IF LexLess(OT[nd.k], start) THEN ScanLoopC(rest, acc, start, end, search, OT)
                ELSE IF LexLess(end, OT[nd.k]) THEN acc
                ELSE ScanLoopC(rest, Append(acc, nd.k), start, end, search, OT)
           ELSE LET cmp   == SubSeq(search, e.d + 1, e.d + Min2(Len(search) - e.d, InlineMax))
                    prune == nd.plen > 0 /\ e.d < Len(search) /\ LCP0(nd.pfx, cmp) = 0
                    cd    == e.d + nd.plen + 1
                    kids  == [i \in 1..Len(nd.ch) |-> [nd |-> nd.ch[Len(nd.ch) + 1 - i], d |-> cd]]
                IN  IF prune THEN ScanLoopC(rest, acc, start, end, search, OT)
                    ELSE ScanLoopC(rest \o kids, acc, start, end, search, OT)

(* the wrapper: an empty end bound means the largest stored key; bounds are swapped by the BYTE order of the originals *)
RangeCollation(tr, aO, aT, bO, bT, OT) ==
  IF tr.kind = "empty" THEN <<>>
  ELSE LET open == Len(bO) = 0
           eO   == IF open THEN OT[MaxLeaf(tr).k] ELSE bO
           eT   == IF open THEN MaxLeaf(tr).tk ELSE bT
           sw   == LexLess(eO, aO)
           sO   == IF sw THEN eO ELSE aO
           hO   == IF sw THEN aO ELSE eO
           sT   == IF sw THEN eT ELSE aT
           hT   == IF sw THEN aT ELSE eT
       IN  ScanLoopC(<<[nd |-> tr, d |-> 0]>>, <<>>, sO, hO, SubSeq(sT, 1, LCP0(sT, hT)), OT)

(* the Range wrappers; b = 0 is the empty end bound of byte-string trees *)
AlphaT(o) == o \o <<0>>

RangeL1(tr, a, b) ==
  CASE Family = "alpha" ->
         LET s0 == O(a)
             e0 == IF b = 0 \/ Len(O(b)) = 0
                   THEN (IF tr.kind = "empty" THEN <<>> ELSE LET mk == MaxLeaf(tr).tk IN SubSeq(mk, 1, Len(mk) - 1))
                   ELSE O(b)
             sw == LexLess(e0, s0)
         IN  RangeScan(tr, AlphaT(IF sw THEN e0 ELSE s0), AlphaT(IF sw THEN s0 ELSE e0))
    [] Family = "collation" ->
         RangeCollation(tr, O(a), T(a), IF b = 0 THEN <<>> ELSE O(b), IF b = 0 THEN <<>> ELSE T(b), OTable)
    [] Family = "compound" ->
         LET sw == LexLess(T(b), T(a))
         IN  RangeScan(tr, IF sw THEN T(b) ELSE T(a), IF sw THEN T(a) ELSE T(b))
    [] OTHER ->   \* comparable keys: native ==, >  (ranks are the native order inside the domain)
         IF a = b THEN (IF SearchTop(tr, a) = a THEN <<a>> ELSE <<>>)
         ELSE RangeScan(tr, T(Min2(a, b)), T(Max2(a, b)))

-----------------------------------------------------------------------------
(* lowestCommonParent + filter = Prefix *)

RECURSIVE LcpLoop(_, _, _)
LcpLoop(nd, p, depth) ==
  IF nd.kind = "leaf" THEN Cov(22, nd)
  ELSE LET idx == IF nd.plen # 0 THEN PrefixMismatch(nd, p, depth) ELSE 0
       IN  IF nd.plen # 0 /\ idx < nd.plen
           THEN (IF depth + idx < Len(p) THEN Cov(19, EmptyTree) ELSE Cov(20, nd))
           ELSE LET d2 == depth + nd.plen
                IN  IF d2 >= Len(p) THEN nd
                    ELSE LET i == IF LcpBranch THEN FindIdx(nd, p[d2 + 1])
                                  ELSE (IF \E j \in 1..Len(nd.ch) : nd.ch[j].kind # "leaf"
                                        THEN CHOOSE j \in 1..Len(nd.ch) : nd.ch[j].kind # "leaf" /\ \A x \in 1..(j-1) : nd.ch[x].kind = "leaf"
                                        ELSE 0)
                         IN  IF i = 0 THEN Cov(21, IF LcpBranch THEN EmptyTree ELSE nd)
                             ELSE LcpLoop(nd.ch[i], p, d2 + 1)

PrefixL1(tr, p) ==
  IF Len(O(p)) = 0 THEN AllL1(tr)
  ELSE IF tr.kind = "empty" THEN <<>>
  ELSE LET root == IF Family = "alpha" THEN LcpLoop(tr, O(p), 0) ELSE tr
       IN  IF root.kind = "empty" THEN <<>>
           ELSE FilterLoop(<<root>>, <<>>, O(p))

-----------------------------------------------------------------------------
(* The state machine *)

(* the tree, map and history after inserting the insertable keys k..N in rank order *)
RECURSIVE FillFrom(_, _)
FillFrom(st, k) ==
  IF k > N THEN st
  ELSE IF Keys[k].probe THEN FillFrom(st, k + 1)
  ELSE LET r == InsTop(st.tree, k)
       IN  FillFrom([tree |-> r.t, size |-> st.size + (IF r.added THEN 1 ELSE 0), m |-> Ins(st.m, k, 1),
                     h |-> Append(st.h, <<"I", k>>)], k + 1)

Empty0 == [tree |-> EmptyTree, size |-> 0, m |-> EmptyMap(N), h |-> <<>>]
Start == IF StartFull THEN FillFrom(Empty0, 1) ELSE Empty0

Init ==
  /\ tree = Start.tree
  /\ size = Start.size
  /\ m = Start.m
  /\ h = Start.h
  /\ lastOK = TRUE
  /\ phase = IF StartFull THEN "drain" ELSE "fill"

Emit(op) ==
  IF EmitEdges THEN PrintT(<<"EDGE", ToJson([pre |-> h, op |-> op])>>) ELSE TRUE

Bounded == MaxDepth = 0 \/ Len(h) < MaxDepth

FillTop == IF FillCap = 0 THEN Cardinality(Insertable) ELSE Min2(FillCap, Cardinality(Insertable))
NextPhase(sz) ==
  IF ~Ramp THEN phase
  ELSE IF phase = "fill" /\ sz >= FillTop THEN "drain"
  ELSE IF phase = "drain" /\ sz <= DrainFloor THEN "fill"
  ELSE phase

(* ramp (simulation only): insert absent keys while filling, delete present ones   *)
(* while draining; ONE random candidate per step, so a step costs a few operation  *)
(* evaluations instead of 2 * N.  The smallest and largest key of the universe     *)
(* (typically the 0x00 / 0xFF branches) are inserted FIRST and deleted LAST, so    *)
(* they are registered whenever a node grows or shrinks.  Churn against the ramp   *)
(* happens where it matters - at the node capacities 4 / 16 / 48 while filling,    *)
(* right after the shrink points 3 / 12 / 37 while draining, and at every 7th /    *)
(* 5th size - and prefers the extreme PRESENT / ABSENT keys ("fill a node, remove  *)
(* its largest child, add one again").                                             *)
ChurnUp   == size \in {4, 16, 48} \/ size % 7 = 0
ChurnDown == size \in {3, 12, 37} \/ size % 5 = 0
MaxOf(S) == CHOOSE x \in S : \A y \in S : y <= x
MinOf(S) == CHOOSE x \in S : \A y \in S : x <= y
Ends == {MinOf(Insertable), MaxOf(Insertable)}
AbsentKeys  == {k \in Insertable : ~Has(m, k)}
PresentKeys == {k \in 1..N : Has(m, k)}
Pick(S) == IF S = {} THEN {} ELSE {RandomElement(S)}
(* ONE candidate: a random element, the largest or the smallest, each with probability 1/3 *)
Extremes(S) == IF S = {} THEN {} ELSE {RandomElement({RandomElement(S), MaxOf(S), MinOf(S)})}

InsCands ==
  CASE phase = "fill" -> IF ProtectEnds /\ AbsentKeys \cap Ends # {} THEN AbsentKeys \cap Ends ELSE Pick(AbsentKeys)
    [] ChurnDown /\ size < FillTop -> Extremes(AbsentKeys)
    [] OTHER -> {}
DelCands ==
  CASE phase = "drain" -> IF ~ProtectEnds THEN Extremes(PresentKeys)
                          ELSE IF PresentKeys \ Ends # {} THEN Pick(PresentKeys \ Ends) ELSE PresentKeys
    [] ChurnUp -> Extremes(PresentKeys)
    [] OTHER -> {}

Insert(k) ==
  /\ Bounded
  /\ LET r == InsTop(tree, k)
     IN  /\ tree' = r.t
         /\ size' = size + (IF r.added THEN 1 ELSE 0)
         /\ phase' = NextPhase(size + (IF r.added THEN 1 ELSE 0))
  /\ m' = Ins(m, k, 1)
  /\ h' = Append(h, <<"I", k>>)
  /\ UNCHANGED lastOK
  /\ Emit(<<"I", k>>)

Delete(k) ==
  /\ Bounded
  /\ LET r == DelTop(tree, k)
     IN  /\ tree' = r.t
         /\ size' = size - (IF r.res THEN 1 ELSE 0)
         /\ phase' = NextPhase(size - (IF r.res THEN 1 ELSE 0))
         /\ lastOK' = (r.res = DeleteRes(m, k))
  /\ m' = Del(m, k)
  /\ h' = Append(h, <<"D", k>>)
  /\ Emit(<<"D", k>>)

FullNext == (\E k \in Insertable : Insert(k)) \/ (\E k \in 1..N : Delete(k))

RampNext ==
  \/ \E k \in InsCands : Insert(k)
  \/ \E k \in DelCands : Delete(k)

Next == IF Ramp THEN RampNext ELSE FullNext

Spec == Init /\ [][Next]_vars

-----------------------------------------------------------------------------
(* Refinement of L0 and structural invariants, for ALL arguments *)

SearchOK   == \A k \in 1..N : SearchTop(tree, k) = (IF Has(m, k) THEN k ELSE 0)
DeleteResOK == lastOK
SizeOK     == size = Size(m) /\ size = Len(LeafSeq(tree))
AllOK      == AllL1(tree) = AllKeys(m)
BackwardOK == BackwardL1(tree) = BackwardKeys(m)
MinMaxOK   == MinL1(tree) = MinKey(m) /\ MaxL1(tree) = MaxKey(m)
TopBottomOK ==
  \A n \in 0..(N + 1) : TopKL1(tree, n) = TopKKeys(m, n) /\ BottomKL1(tree, n) = BottomKKeys(m, n)

RangeDomain(a, b) ==
  /\ <<a, b>> \notin RangeBad
  /\ (Family = "alpha" /\ (b = 0 \/ Len(O(b)) = 0)) => (Present(m) = {} \/ a <= MaxKey(m))
RangeOK ==
  HasRangeOp =>
    \A a \in 1..N : \A b \in (IF Family = "alpha" THEN 0..N ELSE 1..N) :
       RangeDomain(a, b) =>
          RangeL1(tree, a, b) =
             (IF Family = "alpha" /\ (b = 0 \/ Len(O(b)) = 0) THEN RangeOpenKeys(m, a) ELSE RangeKeys(m, a, b))

PrefixOK ==
  HasPrefixOp => \A p \in 1..N : PrefixL1(tree, p) = PrefixKeys(m, OTable, p)

(* C14: re-iterating one TopK/BottomK value after a pass stopped anywhere gives the full result again *)
ReiterOK ==
  \A n \in 0..(N + 1) : \A stop \in 1..(N + 2) :
     /\ KSecondPass(BackwardL1(tree), n, stop) = TopKKeys(m, n)
     /\ KSecondPass(AllL1(tree), n, stop) = BottomKKeys(m, n)

WFOK    == WF(tree)
ShapeOK == Shape(tree) = Canon(LeafKeySet(tree))
LeavesOK ==
  LET ls == LeafSeq(tree)
  IN  /\ {ls[i].k : i \in 1..Len(ls)} = Present(m)
      /\ \A i \in 1..Len(ls) : ls[i].tk = T(ls[i].k)

(* inline bytes are exactly the meaningful ones (normal form of the model) *)
RECURSIVE NormalForm(_)
NormalForm(nd) ==
  nd.kind \in {"leaf", "empty"} \/
    (/\ Len(nd.pfx) = Min2(nd.plen, InlineMax)
     /\ \A i \in 1..Len(nd.ch) : NormalForm(nd.ch[i]))
NormalOK == NormalForm(tree)

(* action properties (C15, C06): what an operation may change *)
OverwriteKeepsShape ==
  [][\A k \in Insertable : (Has(m, k) /\ h' = Append(h, <<"I", k>>)) => (tree' = tree /\ size' = size)]_vars
FailedDeleteIsNoop ==
  [][\A k \in 1..N : (~Has(m, k) /\ h' = Append(h, <<"D", k>>)) => (tree' = tree /\ size' = size)]_vars
SizeStep ==
  [][size' - size = Size(m') - Size(m)]_vars

(* simulation: print the behaviour when it reaches the depth bound *)
EmitHist ==
  (MaxDepth > 0 /\ Len(h) = MaxDepth) => PrintT(<<"HIST", ToJson([hist |-> h])>>)

=============================================================================
