-------------------------------- MODULE ArtWF --------------------------------
(***************************************************************************)
(* Well-formedness and canonical shape of a structural DUMP of a tree.     *)
(*                                                                         *)
(* A dump is a nested record, produced either by the verification-only     *)
(* walker on a real tree or by the implementation-shaped model ArtTree:    *)
(*   leaf  : [kind |-> "leaf", k, tk, val,  n=0, real=0, plen=0,           *)
(*            pfx = <<>>, bytes = <<>>, ch = <<>>]                         *)
(*   inner : [kind \in {"n4","n16","n48","n256"}, n (recorded fan-out),    *)
(*            real (independently counted children), plen (recorded        *)
(*            compressed-path length), pfx (inline path bytes as stored),  *)
(*            bytes (branch bytes in enumeration order), ch (children in   *)
(*            the same order), k=0, tk=<<>>, val=0]                        *)
(*   empty : [kind |-> "empty", ...defaults...]                            *)
(* k is the rank of the leaf's key, tk its transformed bytes.              *)
(*                                                                         *)
(* No tuning constant of the implementation (inline limit, hysteresis      *)
(* thresholds) occurs here; only the capacities tied to the class names.   *)
(***************************************************************************)
EXTENDS Integers, Sequences, FiniteSets

Cap(kind) == CASE kind = "n4" -> 4 [] kind = "n16" -> 16 [] kind = "n48" -> 48
               [] kind = "n256" -> 256 [] OTHER -> 0

InnerKinds == {"n4", "n16", "n48", "n256"}

MkLeaf(k, tk, v) ==
  [kind |-> "leaf", n |-> 0, real |-> 0, plen |-> 0, pfx |-> <<>>, bytes |-> <<>>,
   ch |-> <<>>, k |-> k, tk |-> tk, val |-> v]

MkInner(kind, plen, pfx, bytes, ch) ==
  [kind |-> kind, n |-> Len(ch), real |-> Len(ch), plen |-> plen, pfx |-> pfx,
   bytes |-> bytes, ch |-> ch, k |-> 0, tk |-> <<>>, val |-> 0]

EmptyTree ==
  [kind |-> "empty", n |-> 0, real |-> 0, plen |-> 0, pfx |-> <<>>, bytes |-> <<>>,
   ch |-> <<>>, k |-> 0, tk |-> <<>>, val |-> 0]

WMin(a, b) == IF a <= b THEN a ELSE b

(* leaves in enumeration order *)
RECURSIVE LeafSeq(_), LeafSeqCh(_, _)
LeafSeqCh(ch, i) == IF i > Len(ch) THEN <<>> ELSE LeafSeq(ch[i]) \o LeafSeqCh(ch, i + 1)
LeafSeq(nd) ==
  IF nd.kind = "empty" THEN <<>>
  ELSE IF nd.kind = "leaf" THEN <<nd>>
  ELSE LeafSeqCh(nd.ch, 1)

LeafRanks(nd) == LET ls == LeafSeq(nd) IN [i \in 1..Len(ls) |-> ls[i].k]
LeafVals(nd)  == LET ls == LeafSeq(nd) IN [i \in 1..Len(ls) |-> ls[i].val]
LeafKeySet(nd) == LET ls == LeafSeq(nd) IN {ls[i].tk : i \in 1..Len(ls)}

(***************************************************************************)
(* WFNode(nd, d): nd is a well-formed subtree whose keys have already      *)
(* consumed d bytes.                                                       *)
(*  (i)   every leaf below is reached by the descent its own bytes give    *)
(*  (ii)  >= 2 children, under distinct, strictly ascending branch bytes,  *)
(*        each equal to the byte every key below it has at that position   *)
(*  (iii) plen = length of the bytes all keys below share from d, and the  *)
(*        stored inline bytes agree with them as far as both exist         *)
(*  (iv)  recorded fan-out = real number of children <= capacity           *)
(***************************************************************************)
RECURSIVE WFNode(_, _)
WFNode(nd, d) ==
  IF nd.kind = "leaf" THEN Len(nd.tk) >= d
  ELSE
    /\ nd.kind \in InnerKinds
    /\ nd.n = Len(nd.ch)
    /\ nd.n = Len(nd.bytes)
    /\ nd.real = nd.n
    /\ nd.n >= 2
    /\ nd.n <= Cap(nd.kind)
    /\ \A i \in 1..(nd.n - 1) : nd.bytes[i] < nd.bytes[i + 1]
    /\ LET ls    == LeafSeq(nd)
           p     == nd.plen
       IN  /\ Len(ls) >= 2
           /\ \A i \in 1..Len(ls) : Len(ls[i].tk) > d + p
           /\ \A i \in 1..Len(ls) : \A j \in 1..p : ls[i].tk[d + j] = ls[1].tk[d + j]
           /\ \A j \in 1..WMin(p, Len(nd.pfx)) : nd.pfx[j] = ls[1].tk[d + j]
    /\ \A i \in 1..nd.n :
         LET cl == LeafSeq(nd.ch[i])
         IN  /\ Len(cl) >= 1
             /\ \A j \in 1..Len(cl) :
                   /\ Len(cl[j].tk) > d + nd.plen
                   /\ cl[j].tk[d + nd.plen + 1] = nd.bytes[i]
    /\ \A i \in 1..nd.n : WFNode(nd.ch[i], d + nd.plen + 1)

WF(nd) == nd.kind = "empty" \/ WFNode(nd, 0)

(***************************************************************************)
(* Canonical shape.  Shape forgets the size class, values, and stored      *)
(* inline bytes; Canon builds the compressed radix tree of a prefix-free   *)
(* set of byte strings by recursive partitioning.  "The shape depends only *)
(* on the key set" is  Shape(dump) = Canon(LeafKeySet(dump)).              *)
(***************************************************************************)
RECURSIVE Shape(_)
Shape(nd) ==
  IF nd.kind = "empty" THEN <<"empty">>
  ELSE IF nd.kind = "leaf" THEN <<"leaf", nd.tk>>
  ELSE <<"inner", nd.plen, nd.bytes, [i \in 1..Len(nd.ch) |-> Shape(nd.ch[i])]>>

RECURSIVE SortedBytes(_)
SortedBytes(S) ==
  IF S = {} THEN <<>>
  ELSE LET x == CHOOSE y \in S : \A z \in S : y <= z
       IN  <<x>> \o SortedBytes(S \ {x})

(* number of bytes all keys of KS share after their first d bytes *)
RECURSIVE CommonExt(_, _, _)
CommonExt(KS, d, p) ==
  LET some == CHOOSE s \in KS : TRUE
  IN  IF /\ \A s \in KS : Len(s) > d + p
         /\ \A s \in KS : s[d + p + 1] = some[d + p + 1]
      THEN CommonExt(KS, d, p + 1)
      ELSE p

RECURSIVE CanonAt(_, _)
CanonAt(KS, d) ==
  IF Cardinality(KS) = 1 THEN <<"leaf", CHOOSE s \in KS : TRUE>>
  ELSE LET p  == CommonExt(KS, d, 0)
           bs == SortedBytes({s[d + p + 1] : s \in {x \in KS : Len(x) > d + p}})
       IN  <<"inner", p, bs,
             [i \in 1..Len(bs) |-> CanonAt({s \in KS : Len(s) > d + p /\ s[d + p + 1] = bs[i]}, d + p + 1)]>>

Canon(KS) == IF KS = {} THEN <<"empty">> ELSE CanonAt(KS, 0)

(* the key set is prefix-free: precondition for Canon to be meaningful *)
PrefixFree(KS) ==
  \A s \in KS : \A r \in KS :
     s # r => ~(Len(s) <= Len(r) /\ \A i \in 1..Len(s) : s[i] = r[i])

=============================================================================
