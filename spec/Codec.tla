-------------------------------- MODULE Codec --------------------------------
(***************************************************************************)
(* Numeric key encodings (C07) on BYTE SEQUENCES.                          *)
(*                                                                         *)
(* A value is its bit pattern as a big-endian sequence of bytes (TLC's     *)
(* integers are 32-bit, so 64-bit values are never integers here).         *)
(*   ValueLess(ty, a, b)  the DECLARED order, written directly on bit      *)
(*                        patterns: unsigned lexicographic; signed: sign,  *)
(*                        then two's-complement magnitude; float: all NaNs *)
(*                        one smallest key < -Inf < negatives < -0 < +0 <  *)
(*                        positives < +Inf.                                *)
(*   LexLess(x, y)        bytewise lexicographic order of encodings.       *)
(*   Enc(ty, a), Dec(ty, e)  the library's design, transcribed: big-endian *)
(*                        layout, sign-bit flip, IEEE sign-magnitude to    *)
(*                        biased order with +2 (codes 0, 1, max-1 reserved *)
(*                        for NaN, -Inf, +Inf).                            *)
(* Types: "u", "i" (any width), "f32", "f64", and an 8-bit minifloat "f8"  *)
(* (1-4-3) small enough to check the float design exhaustively.            *)
(***************************************************************************)
EXTENDS Integers, Sequences, FiniteSets, TLC

Byte == 0..255

LexLess(x, y) ==
  \E i \in 1..Len(x) :
     /\ i <= Len(y)
     /\ \A j \in 1..(i - 1) : x[j] = y[j]
     /\ x[i] < y[i]
  \/ (Len(x) < Len(y) /\ \A j \in 1..Len(x) : x[j] = y[j])

IsFloat(ty) == ty \in {"f32", "f64", "f8"}

Neg(a) == a[1] >= 128
(* bit pattern without the sign bit *)
Mag(a) == [a EXCEPT ![1] = a[1] % 128]

ExpAllOnes(ty, a) ==
  CASE ty = "f32" -> (a[1] % 128) = 127 /\ a[2] >= 128
    [] ty = "f64" -> (a[1] % 128) = 127 /\ a[2] >= 240
    [] ty = "f8"  -> ((a[1] % 128) \div 8) = 15
MantZero(ty, a) ==
  CASE ty = "f32" -> (a[2] % 128) = 0 /\ a[3] = 0 /\ a[4] = 0
    [] ty = "f64" -> (a[2] % 16) = 0 /\ \A i \in 3..8 : a[i] = 0
    [] ty = "f8"  -> (a[1] % 8) = 0
IsNaN(ty, a) == IsFloat(ty) /\ ExpAllOnes(ty, a) /\ ~MantZero(ty, a)
IsInf(ty, a) == IsFloat(ty) /\ ExpAllOnes(ty, a) /\ MantZero(ty, a)

(* equality of VALUES: all NaNs are one key; -0 and +0 differ *)
ValueEq(ty, a, b) == (IsNaN(ty, a) /\ IsNaN(ty, b)) \/ a = b

ValueLess(ty, a, b) ==
  CASE ty = "u" -> LexLess(a, b)
    [] ty = "i" -> (Neg(a) /\ ~Neg(b)) \/ (Neg(a) = Neg(b) /\ LexLess(a, b))
    [] OTHER ->   \* floats
         IF IsNaN(ty, b) THEN FALSE
         ELSE IF IsNaN(ty, a) THEN TRUE
         ELSE \/ (Neg(a) /\ ~Neg(b))
              \/ (~Neg(a) /\ ~Neg(b) /\ LexLess(a, b))
              \/ (Neg(a) /\ Neg(b) /\ LexLess(Mag(b), Mag(a)))

-----------------------------------------------------------------------------
(* the library's design *)

Not(a) == [i \in 1..Len(a) |-> 255 - a[i]]

(* big-endian increment / decrement by a small constant, wrapping *)
RECURSIVE AddAt(_, _, _)
AddAt(a, i, c) ==
  IF i = 0 \/ c = 0 THEN a
  ELSE LET s == a[i] + c
       IN  AddAt([a EXCEPT ![i] = s % 256], i - 1, s \div 256)
Add(a, c) == AddAt(a, Len(a), c)

RECURSIVE SubAt(_, _, _)
SubAt(a, i, c) ==
  IF i = 0 \/ c = 0 THEN a
  ELSE LET s == a[i] - c
       IN  IF s >= 0 THEN [a EXCEPT ![i] = s]
           ELSE SubAt([a EXCEPT ![i] = s + 256], i - 1, 1)
Sub(a, c) == SubAt(a, Len(a), c)

FlipSign(a) == [a EXCEPT ![1] = (a[1] + 128) % 256]
AllBytes(w, v) == [i \in 1..w |-> v]
CodeNaN(w)    == AllBytes(w, 0)
CodeNegInf(w) == [AllBytes(w, 0) EXCEPT ![w] = 1]
CodePosInf(w) == [AllBytes(w, 255) EXCEPT ![w] = 254]

Enc(ty, a) ==
  CASE ty = "u" -> a
    [] ty = "i" -> FlipSign(a)
    [] OTHER ->
         IF IsNaN(ty, a) THEN CodeNaN(Len(a))
         ELSE IF IsInf(ty, a) THEN (IF Neg(a) THEN CodeNegInf(Len(a)) ELSE CodePosInf(Len(a)))
         ELSE Add(IF Neg(a) THEN Not(a) ELSE FlipSign(a), 2)

(* the canonical NaN the decoder returns is some NaN: only "is a NaN" is specified *)
DecNonSpecial(e) ==
  LET x == Sub(e, 2)
  IN  IF x[1] >= 128 THEN FlipSign(x) ELSE Not(x)

Dec(ty, e) ==
  CASE ty = "u" -> e
    [] ty = "i" -> FlipSign(e)
    [] OTHER -> DecNonSpecial(e)     \* for codes of finite values

-----------------------------------------------------------------------------
(* the property, for two values of one type *)

Iso(ty, a, b) ==
  /\ Len(Enc(ty, a)) = Len(a)
  /\ ValueLess(ty, a, b) <=> LexLess(Enc(ty, a), Enc(ty, b))
  /\ ValueEq(ty, a, b) <=> (Enc(ty, a) = Enc(ty, b))

RoundTrip(ty, a) ==
  IF IsNaN(ty, a) THEN Enc(ty, a) = CodeNaN(Len(a))
  ELSE IF IsInf(ty, a) THEN TRUE
  ELSE Dec(ty, Enc(ty, a)) = a

(* exhaustive checks that TLC can afford: all pairs of every 8-bit type *)
All8(ty) == \A x \in Byte : \A y \in Byte : Iso(ty, <<x>>, <<y>>) /\ RoundTrip(ty, <<x>>)

(* 16-bit integers: all adjacent pairs in value order plus the wrap-around pair *)
U16(v) == <<v \div 256, v % 256>>
I16(v) == U16(IF v < 0 THEN v + 65536 ELSE v)
Adj16 ==
  /\ \A v \in 0..65534 : Iso("u", U16(v), U16(v + 1)) /\ RoundTrip("u", U16(v))
  /\ \A v \in (-32768)..32766 : Iso("i", I16(v), I16(v + 1)) /\ RoundTrip("i", I16(v))
  /\ Iso("i", I16(32767), I16(-32768)) /\ Iso("u", U16(65535), U16(0))

=============================================================================
