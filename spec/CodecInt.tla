------------------------------ MODULE CodecInt ------------------------------
(***************************************************************************)
(* The numeric key encodings over the INTEGERS, for an arbitrary width.    *)
(*                                                                         *)
(* H is half the number of bit patterns of the type (2^(w-1)); I is the    *)
(* magnitude of infinity (all exponent bits set, mantissa 0), I + 3 < H.   *)
(* A signed value x \in -H..H-1 is encoded as x + H (sign-bit flip).       *)
(* A float is its sign-magnitude bit pattern b \in 0..2H-1 (sign = b >= H, *)
(* magnitude = b - H for negatives); finite values have magnitude < I.     *)
(* The design maps negatives to (2H-1-b)+2, non-negatives to b+H+2, and    *)
(* reserves the codes 0, 1, 2H-2 for NaN, -Inf, +Inf.                      *)
(* The theorems say the design is an order isomorphism for EVERY width -   *)
(* the argument for the values the trace batches do not sample.            *)
(***************************************************************************)
EXTENDS Integers, TLAPS

CONSTANTS H, I
ASSUME Widths == H \in Nat /\ I \in Nat /\ I > 0 /\ I + 3 < H

EncS(x) == x + H

THEOREM SignedIso ==
  \A x, y \in (-H)..(H - 1) :
     /\ EncS(x) \in 0..(2 * H - 1)
     /\ (x < y <=> EncS(x) < EncS(y))
     /\ (x = y <=> EncS(x) = EncS(y))
  BY Widths DEF EncS

(* floats: bit patterns of finite values *)
Neg(b) == b >= H
Finite(b) == (b \in 0..(I - 1)) \/ (b \in H..(H + I - 1))

(* the declared order on finite values: negatives (larger pattern = smaller value) < -0 < +0 < positives *)
FLess(a, b) ==
  \/ (Neg(a) /\ ~Neg(b))
  \/ (~Neg(a) /\ ~Neg(b) /\ a < b)
  \/ (Neg(a) /\ Neg(b) /\ b < a)

EncF(b) == IF Neg(b) THEN (2 * H - 1 - b) + 2 ELSE b + H + 2
CodeNaN == 0
CodeNegInf == 1
CodePosInf == 2 * H - 2

THEOREM FloatIso ==
  \A a, b \in 0..(2 * H - 1) :
     (Finite(a) /\ Finite(b)) =>
        /\ (FLess(a, b) <=> EncF(a) < EncF(b))
        /\ (a = b <=> EncF(a) = EncF(b))
<1> SUFFICES ASSUME NEW a \in 0..(2 * H - 1), NEW b \in 0..(2 * H - 1), Finite(a), Finite(b)
             PROVE  /\ (FLess(a, b) <=> EncF(a) < EncF(b))
                    /\ (a = b <=> EncF(a) = EncF(b))
  OBVIOUS
<1>1. CASE Neg(a) /\ Neg(b)
  BY <1>1, Widths, Z3 DEF FLess, EncF, Neg, Finite
<1>2. CASE Neg(a) /\ ~Neg(b)
  BY <1>2, Widths, Z3 DEF FLess, EncF, Neg, Finite
<1>3. CASE ~Neg(a) /\ Neg(b)
  BY <1>3, Widths, Z3 DEF FLess, EncF, Neg, Finite
<1>4. CASE ~Neg(a) /\ ~Neg(b)
  BY <1>4, Widths, Z3 DEF FLess, EncF, Neg, Finite
<1> QED BY <1>1, <1>2, <1>3, <1>4

(* the reserved codes sit strictly outside the codes of finite values, in the declared order *)
THEOREM SpecialsOutside ==
  \A b \in 0..(2 * H - 1) :
     Finite(b) => (CodeNaN < CodeNegInf /\ CodeNegInf < EncF(b) /\ EncF(b) < CodePosInf /\ CodePosInf <= 2 * H - 1)
<1> SUFFICES ASSUME NEW b \in 0..(2 * H - 1), Finite(b)
             PROVE  CodeNaN < CodeNegInf /\ CodeNegInf < EncF(b) /\ EncF(b) < CodePosInf /\ CodePosInf <= 2 * H - 1
  OBVIOUS
<1>1. CASE Neg(b)
  BY <1>1, Widths, Z3 DEF EncF, Neg, Finite, CodeNaN, CodeNegInf, CodePosInf
<1>2. CASE ~Neg(b)
  BY <1>2, Widths, Z3 DEF EncF, Neg, Finite, CodeNaN, CodeNegInf, CodePosInf
<1> QED BY <1>1, <1>2

(* decoding inverts encoding on finite values *)
DecF(e) == LET x == e - 2 IN IF x >= H THEN x - H ELSE 2 * H - 1 - x

THEOREM FloatRoundTrip ==
  \A b \in 0..(2 * H - 1) : Finite(b) => DecF(EncF(b)) = b
<1> SUFFICES ASSUME NEW b \in 0..(2 * H - 1), Finite(b) PROVE DecF(EncF(b)) = b
  OBVIOUS
<1>1. CASE Neg(b)
  BY <1>1, Widths, Z3 DEF EncF, DecF, Neg, Finite
<1>2. CASE ~Neg(b)
  BY <1>2, Widths, Z3 DEF EncF, DecF, Neg, Finite
<1> QED BY <1>1, <1>2
=============================================================================
