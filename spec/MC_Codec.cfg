INIT Init
NEXT Next
INVARIANTS InvU8 InvI8 InvF8 Inv16
CHECK_DEADLOCK FALSE
