------------------------------ MODULE MC_Codec ------------------------------
(* Exhaustive small-width checks of the encoding design (constant-level).   *)
EXTENDS Codec
VARIABLE step
Init == step = 0
Next == step < 3 /\ step' = step + 1
InvU8  == step = 0 => All8("u")
InvI8  == step = 1 => All8("i")
InvF8  == step = 2 => All8("f8")
Inv16  == step = 3 => Adj16
=============================================================================
