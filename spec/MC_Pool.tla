---- MODULE MC_Pool ----
EXTENDS ArtPool
MCOwner1 == [p \in {"p1"} |-> {"t1", "t2", "t3"}]
MCOwner2 == [p \in {"p1", "p2"} |-> IF p = "p1" THEN {"t1"} ELSE {"t2"}]
====
