SPECIFICATION TraceSpec
INVARIANTS
  Inv_C01
  Inv_C02
  Inv_C03
  Inv_C04
  Inv_C05
  Inv_C06
  Inv_C11
  Inv_C12
  Inv_C13
  Inv_C14
  Inv_C15
  Inv_C17
POSTCONDITION TraceComplete
CHECK_DEADLOCK FALSE
