------------------------------ MODULE TraceArt ------------------------------
(***************************************************************************)
(* Trace validation: executions recorded from the REAL go-art trees are    *)
(* checked against the specification.                                      *)
(*                                                                         *)
(* The trace specification is deterministic: TraceNext consumes line l of  *)
(* the ndjson trace and updates the ghost state by the SPECIFICATION's     *)
(* meaning of the logged operation (ArtMap).  Every comparison with what   *)
(* the code actually returned is a named invariant, one family per listed  *)
(* property, so a failure is reported by TLC as "Invariant Inv_Cxx is      *)
(* violated" in the state that has just consumed the offending line.       *)
(*                                                                         *)
(* Up to MaxT trees live side by side (C12/C16); line field t names one.   *)
(***************************************************************************)
EXTENDS Integers, Sequences, FiniteSets, TLC, Json, IOUtils, ArtMap, ArtWF

TraceFile == IF "TRACE" \in DOMAIN IOEnv THEN IOEnv.TRACE ELSE "trace.ndjson"

Trace == ndJsonDeserialize(TraceFile)

MaxT == 8

VARIABLES
  l,      \* next trace line to consume
  m,      \* m[t]: ghost map of tree t (ArtMap)
  uni,    \* uni[t]: universe of tree t: sequence (by rank) of [o |-> original bytes, t |-> transformed bytes]
  kd,     \* kd[t]: tree family: "alpha", "unsigned", "signed", "float", "compound", "collation"
  dgs,    \* dgs[t]: digests of tree t after its latest operation [dg, sg, edg]
  pre,    \* snapshot of the touched tree before the line just consumed [m, dg, sg]
  base    \* base[t]: heap baseline of the current measurement phase (C17)

vars == <<l, m, uni, kd, dgs, pre, base>>

NoTree == [dg |-> "", sg |-> "", edg |-> ""]

TraceInit ==
  /\ l = 1
  /\ m = [t \in 1..MaxT |-> <<>>]
  /\ uni = [t \in 1..MaxT |-> <<>>]
  /\ kd = [t \in 1..MaxT |-> "none"]
  /\ dgs = [t \in 1..MaxT |-> NoTree]
  /\ pre = [m |-> <<>>, dg |-> "", sg |-> ""]
  /\ base = [t \in 1..MaxT |-> 0]

MutOps   == {"Insert", "Delete"}
QueryOps == {"Search", "All", "Backward", "Min", "Max", "TopK", "BottomK", "Range",
             "Prefix", "Iter", "Dump", "Size"}
EnvOps   == {"GC", "Scribble", "Arena", "Checkpoint", "Note"}
KnownOps == MutOps \cup QueryOps \cup EnvOps \cup {"new", "clear", "reset"}

Snapshot(t) == [m |-> m[t], dg |-> dgs[t].dg, sg |-> dgs[t].sg]

TraceNext ==
  /\ l <= Len(Trace)
  /\ Trace[l].op \in KnownOps
  /\ l' = l + 1
  /\ LET e == Trace[l] IN
     CASE e.op = "reset" ->
            /\ m' = [t \in 1..MaxT |-> <<>>]
            /\ uni' = [t \in 1..MaxT |-> <<>>]
            /\ kd' = [t \in 1..MaxT |-> "none"]
            /\ dgs' = [t \in 1..MaxT |-> NoTree]
            /\ pre' = [m |-> <<>>, dg |-> "", sg |-> ""]
            /\ base' = [t \in 1..MaxT |-> 0]
       [] e.op = "new" ->
            /\ m' = [m EXCEPT ![e.t] = EmptyMap(Len(e.u))]
            /\ uni' = [uni EXCEPT ![e.t] = e.u]
            /\ kd' = [kd EXCEPT ![e.t] = e.kind]
            /\ dgs' = [dgs EXCEPT ![e.t] = [dg |-> e.dg, sg |-> e.sg, edg |-> e.dg]]
            /\ pre' = [m |-> <<>>, dg |-> "", sg |-> ""]
            /\ base' = [base EXCEPT ![e.t] = 0]
       [] e.op = "clear" ->
            \* a fresh tree over the universe already declared for t
            /\ kd[e.t] # "none"
            /\ m' = [m EXCEPT ![e.t] = EmptyMap(Len(uni[e.t]))]
            /\ dgs' = [dgs EXCEPT ![e.t] = [dg |-> e.dg, sg |-> e.sg, edg |-> e.dg]]
            /\ pre' = [m |-> <<>>, dg |-> "", sg |-> ""]
            /\ UNCHANGED <<uni, kd, base>>
       [] e.op = "Insert" ->
            /\ e.k \in 1..Len(uni[e.t])
            /\ m' = [m EXCEPT ![e.t] = Ins(@, e.k, e.v)]
            /\ dgs' = [dgs EXCEPT ![e.t].dg = e.dg, ![e.t].sg = e.sg]
            /\ pre' = Snapshot(e.t)
            /\ UNCHANGED <<uni, kd, base>>
       [] e.op = "Delete" ->
            /\ e.k \in 1..Len(uni[e.t])
            /\ m' = [m EXCEPT ![e.t] = Del(@, e.k)]
            /\ dgs' = [dgs EXCEPT ![e.t].dg = e.dg, ![e.t].sg = e.sg]
            /\ pre' = Snapshot(e.t)
            /\ UNCHANGED <<uni, kd, base>>
       [] e.op \in QueryOps ->
            /\ dgs' = [dgs EXCEPT ![e.t].dg = e.dg, ![e.t].sg = e.sg]
            /\ pre' = Snapshot(e.t)
            /\ UNCHANGED <<m, uni, kd, base>>
       [] e.op = "Checkpoint" ->
            /\ base' = [base EXCEPT ![e.t] = IF e.first THEN e.heap ELSE @]
            /\ pre' = Snapshot(e.t)
            /\ UNCHANGED <<m, uni, kd, dgs>>
       [] e.op \in {"GC", "Scribble", "Arena", "Note"} ->
            \* environment steps: stuttering for every tree
            /\ pre' = pre
            /\ UNCHANGED <<m, uni, kd, dgs, base>>

TraceSpec == TraceInit /\ [][TraceNext]_vars

-----------------------------------------------------------------------------
(* What the code reported in the line just consumed, and the ghost state *)

Started == l > 1
Cur     == Trace[l - 1]
HasTree == Started /\ Cur.op \in (MutOps \cup QueryOps)
Ok      == HasTree /\ Cur.pan = ""          \* the call returned normally
M       == m[Cur.t]                         \* ghost map after the call
PM      == pre.m                            \* ghost map before the call
U       == uni[Cur.t]
OTab    == [i \in 1..Len(U) |-> U[i].o]

IsOp(o) == Started /\ Cur.op = o

(* a panic escaping a call of the given operations *)
NoPanic(ops) == (Started /\ Cur.op \in ops) => Cur.pan = ""

KeysVals(ks) == Cur.keys = ks /\ Cur.vals = ValsOf(M, ks)

-----------------------------------------------------------------------------
(* C01 - exact map *)
Inv_C01 ==
  /\ NoPanic({"Insert", "Search", "Delete"})
  /\ (Ok /\ Cur.op = "Search") =>
        /\ Cur.found = SearchFound(M, Cur.k)
        /\ Cur.found => Cur.val = SearchVal(M, Cur.k)
  /\ (Ok /\ Cur.op = "Delete") => Cur.res = DeleteRes(PM, Cur.k)

(* C02 - iteration *)
Inv_C02 ==
  /\ NoPanic({"All", "Backward"})
  /\ (Ok /\ Cur.op = "All") => KeysVals(AllKeys(M))
  /\ (Ok /\ Cur.op = "Backward") => KeysVals(BackwardKeys(M))

(* C03 - Range; open = the end bound was the empty key of a byte-string tree *)
Inv_C03 ==
  /\ NoPanic({"Range"})
  /\ (Ok /\ Cur.op = "Range" /\ kd[Cur.t] # "collation") =>
        IF Cur.open THEN KeysVals(RangeOpenKeys(M, Cur.a))
        ELSE KeysVals(RangeKeys(M, Cur.a, Cur.b))

(* C04 - Prefix *)
Inv_C04 ==
  /\ NoPanic({"Prefix"})
  /\ (Ok /\ Cur.op = "Prefix") => KeysVals(PrefixKeys(M, OTab, Cur.p))

(* C05 - extremes, TopK, BottomK *)
Inv_C05 ==
  /\ NoPanic({"Min", "Max", "TopK", "BottomK"})
  /\ (Ok /\ Cur.op = "Min") =>
        /\ Cur.found = (Present(M) # {})
        /\ Cur.found => (Cur.k = MinKey(M) /\ Cur.v = M[MinKey(M)])
  /\ (Ok /\ Cur.op = "Max") =>
        /\ Cur.found = (Present(M) # {})
        /\ Cur.found => (Cur.k = MaxKey(M) /\ Cur.v = M[MaxKey(M)])
  /\ (Ok /\ Cur.op = "BottomK") => KeysVals(BottomKKeys(M, Cur.n))
  /\ (Ok /\ Cur.op = "TopK") => KeysVals(TopKKeys(M, Cur.n))

(* C06 - Size after every operation; count of All() *)
Inv_C06 ==
  /\ Ok => Cur.sz = Size(M)
  /\ (Ok /\ Cur.op = "All") => Len(Cur.keys) = Cur.sz
  /\ (Ok /\ Cur.op = "Insert") => Cur.sz = Size(PM) + (IF Has(PM, Cur.k) THEN 0 ELSE 1)
  /\ (Ok /\ Cur.op = "Delete") => Cur.sz = Size(PM) - (IF Cur.res THEN 1 ELSE 0)

(* C11 - well-formed index, canonical shape; on every line carrying a dump *)
HasDump == Ok /\ Cur.op \in {"Insert", "Delete", "Dump"} /\ Cur.hasd
DumpOK(d) ==
  LET ls == LeafSeq(d)
  IN  /\ WF(d)
      /\ \A i \in 1..Len(ls) : ls[i].k \in 1..Len(U) /\ ls[i].tk = U[ls[i].k].t
      /\ {ls[i].k : i \in 1..Len(ls)} = Present(M)
      /\ Len(ls) = Cardinality(Present(M))
      /\ \A i \in 1..Len(ls) : ls[i].val = M[ls[i].k]
      /\ Shape(d) = Canon(LeafKeySet(d))
      /\ Len(ls) = Cur.sz
Inv_C11 == HasDump => DumpOK(Cur.dump)

(* C12 - a tree emptied by deletions is indistinguishable from a new one;   *)
(* independence of trees is Inv_C01..C11 holding per tree under interleaving *)
Inv_C12 ==
  (Ok /\ Cur.op = "Delete" /\ Present(M) = {}) => Cur.dg = dgs[Cur.t].edg

(* C13 - caller memory untouched by a call *)
Inv_C13 == IsOp("Arena") => Cur.before = Cur.after

(* C14 - abandon and re-iterate *)
FullKeys ==
  CASE Cur.seq = "All"      -> AllKeys(M)
    [] Cur.seq = "Backward" -> BackwardKeys(M)
    [] Cur.seq = "TopK"     -> TopKKeys(M, Cur.n)
    [] Cur.seq = "BottomK"  -> BottomKKeys(M, Cur.n)
    [] Cur.seq = "Range"    -> IF Cur.open THEN RangeOpenKeys(M, Cur.a) ELSE RangeKeys(M, Cur.a, Cur.b)
    [] Cur.seq = "Prefix"   -> PrefixKeys(M, OTab, Cur.p)
Inv_C14 ==
  /\ NoPanic({"Iter"})
  /\ (Ok /\ Cur.op = "Iter") =>
        /\ Cur.late = 0
        /\ Len(Cur.passes) = Len(Cur.stops)
        /\ \A i \in 1..Len(Cur.stops) :
              /\ Cur.passes[i] = Pass(FullKeys, Cur.stops[i])
              /\ Cur.pvals[i] = ValsOf(M, Cur.passes[i])

(* C15 - queries and no-op updates leave the tree untouched *)
Inv_C15 ==
  /\ (Ok /\ Cur.op \in QueryOps) => Cur.dg = pre.dg
  /\ (Ok /\ Cur.op = "Delete" /\ ~Has(PM, Cur.k)) => Cur.dg = pre.dg
  /\ (Ok /\ Cur.op = "Insert" /\ Has(PM, Cur.k)) => Cur.sg = pre.sg

(* C17 - retained memory: growth since the phase baseline stays under the   *)
(* slack plus a bound proportional to the content                           *)
Slack == 2097152
PerByte == 64
Inv_C17 ==
  (IsOp("Checkpoint") /\ ~Cur.first) =>
     Cur.heap <= base[Cur.t] + Slack + PerByte * Cur.grown

-----------------------------------------------------------------------------
(* error traces print only the position (the trace file has the rest) *)
TraceAlias == [l |-> l]

(* The whole trace was consumed (guards against silently skipped lines).    *)
TraceComplete ==
  TLCGet("stats").diameter - 1 = Len(Trace)

=============================================================================
