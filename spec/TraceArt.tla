------------------------------ MODULE TraceArt ------------------------------
(***************************************************************************)
(* Trace validation: executions recorded from the REAL go-art trees are    *)
(* checked against the specification.                                      *)
(*                                                                         *)
(* The trace specification is deterministic: TraceNext consumes line l of  *)
(* the ndjson trace and updates the ghost state by the SPECIFICATION's     *)
(* meaning of the logged operation (ArtMap).  Every comparison with what   *)
(* the code actually returned is a named invariant, one family per listed  *)
(* property, so a failure is reported by TLC as "Invariant Inv_Cxx is      *)
(* violated" in the state that has just consumed the offending line.       *)
(*                                                                         *)
(* Up to MaxT trees live side by side (C12/C16); line field t names one.   *)
(***************************************************************************)
EXTENDS Integers, Sequences, FiniteSets, TLC, Json, IOUtils, ArtMap, ArtWF

TraceFile == IF "TRACE" \in DOMAIN IOEnv THEN IOEnv.TRACE ELSE "trace.ndjson"

Trace == ndJsonDeserialize(TraceFile)

MaxT == 8

VARIABLES
  l,      \* next trace line to consume
  m,      \* m[t]: ghost map of tree t (ArtMap)
  uni,    \* uni[t]: universe of tree t: sequence (by rank) of [o |-> original bytes, t |-> transformed bytes]
  kd,     \* kd[t]: tree family: "alpha", "unsigned", "signed", "float", "compound", "collation"
  dgs,    \* dgs[t]: digests of tree t after its latest operation [dg, sg, edg]
  pre,    \* snapshot of the touched tree before the line just consumed [m, dg, sg]
  base    \* base[t]: heap baseline of the current measurement phase (C17)

vars == <<l, m, uni, kd, dgs, pre, base>>

NoTree == [dg |-> "", sg |-> "", edg |-> ""]
NoBase == [phase |-> 0, empty |-> 0]

TraceInit ==
  /\ l = 1
  /\ m = [t \in 1..MaxT |-> <<>>]
  /\ uni = [t \in 1..MaxT |-> <<>>]
  /\ kd = [t \in 1..MaxT |-> "none"]
  /\ dgs = [t \in 1..MaxT |-> NoTree]
  /\ pre = [m |-> <<>>, dg |-> "", sg |-> ""]
  /\ base = [t \in 1..MaxT |-> NoBase]

MutOps   == {"Insert", "Delete"}
QueryOps == {"Search", "All", "Backward", "Min", "Max", "TopK", "BottomK", "Range", "RangeC",
             "Prefix", "Iter", "Dump", "Size"}
EnvOps   == {"GC", "Scribble", "Arena", "Checkpoint", "Note", "Same"}
KnownOps == MutOps \cup QueryOps \cup EnvOps \cup {"new", "clear", "reset", "Batch", "Pre"}

(* ops: sequence of <<"I", k, v>> / <<"D", k, 0>> *)
RECURSIVE FoldOps(_, _, _)
FoldOps(mm, ops, i) ==
  IF i > Len(ops) THEN mm
  ELSE FoldOps(IF ops[i][1] = "I" THEN Ins(mm, ops[i][2], ops[i][3]) ELSE Del(mm, ops[i][2]), ops, i + 1)

Snapshot(t) == [m |-> m[t], dg |-> dgs[t].dg, sg |-> dgs[t].sg]

TraceNext ==
  /\ l <= Len(Trace)
  /\ Trace[l].op \in KnownOps
  /\ l' = l + 1
  /\ LET e == Trace[l] IN
     CASE e.op = "reset" ->
            /\ m' = [t \in 1..MaxT |-> <<>>]
            /\ uni' = [t \in 1..MaxT |-> <<>>]
            /\ kd' = [t \in 1..MaxT |-> "none"]
            /\ dgs' = [t \in 1..MaxT |-> NoTree]
            /\ pre' = [m |-> <<>>, dg |-> "", sg |-> ""]
            /\ base' = [t \in 1..MaxT |-> NoBase]
       [] e.op = "new" ->
            /\ m' = [m EXCEPT ![e.t] = EmptyMap(Len(e.u))]
            /\ uni' = [uni EXCEPT ![e.t] = e.u]
            /\ kd' = [kd EXCEPT ![e.t] = e.kind]
            /\ dgs' = [dgs EXCEPT ![e.t] = [dg |-> e.dg, sg |-> e.sg, edg |-> e.dg]]
            /\ pre' = [m |-> <<>>, dg |-> "", sg |-> ""]
            /\ base' = [base EXCEPT ![e.t] = NoBase]
       [] e.op = "clear" ->
            \* a fresh tree over the universe already declared for t
            /\ kd[e.t] # "none"
            /\ m' = [m EXCEPT ![e.t] = EmptyMap(Len(uni[e.t]))]
            /\ dgs' = [dgs EXCEPT ![e.t] = [dg |-> e.dg, sg |-> e.sg, edg |-> e.dg]]
            /\ pre' = [m |-> <<>>, dg |-> "", sg |-> ""]
            /\ UNCHANGED <<uni, kd, base>>
       [] e.op = "Insert" ->
            /\ e.k \in 1..Len(uni[e.t])
            /\ m' = [m EXCEPT ![e.t] = Ins(@, e.k, e.v)]
            /\ dgs' = [dgs EXCEPT ![e.t].dg = e.dg, ![e.t].sg = e.sg]
            /\ pre' = Snapshot(e.t)
            /\ UNCHANGED <<uni, kd, base>>
       [] e.op = "Delete" ->
            /\ e.k \in 1..Len(uni[e.t])
            /\ m' = [m EXCEPT ![e.t] = Del(@, e.k)]
            /\ dgs' = [dgs EXCEPT ![e.t].dg = e.dg, ![e.t].sg = e.sg]
            /\ pre' = Snapshot(e.t)
            /\ UNCHANGED <<uni, kd, base>>
       [] e.op = "Batch" ->
            \* read-only calls: the ghost state does not move
            /\ pre' = Snapshot(e.t)
            /\ UNCHANGED <<m, uni, kd, base, dgs>>
       [] e.op = "Pre" ->
            /\ m' = [m EXCEPT ![e.t] = FoldOps(@, e.ops, 1)]
            /\ dgs' = [dgs EXCEPT ![e.t].dg = e.dg, ![e.t].sg = e.sg]
            /\ pre' = Snapshot(e.t)
            /\ UNCHANGED <<uni, kd, base>>
       [] e.op \in QueryOps ->
            /\ dgs' = [dgs EXCEPT ![e.t].dg = e.dg, ![e.t].sg = e.sg]
            /\ pre' = Snapshot(e.t)
            /\ UNCHANGED <<m, uni, kd, base>>
       [] e.op = "Checkpoint" ->
            /\ base' = [base EXCEPT ![e.t] = [phase |-> IF e.first THEN e.heap ELSE @.phase,
                                               empty |-> IF e.phase = "empty" THEN e.heap ELSE @.empty]]
            /\ pre' = Snapshot(e.t)
            /\ UNCHANGED <<m, uni, kd, dgs>>
       [] e.op \in {"GC", "Scribble", "Arena", "Note", "Same"} ->
            \* environment steps: stuttering for every tree
            /\ pre' = pre
            /\ UNCHANGED <<m, uni, kd, dgs, base>>

TraceSpec == TraceInit /\ [][TraceNext]_vars

-----------------------------------------------------------------------------
(* What the code reported in the line just consumed, and the ghost state.   *)
(* A "Batch" line carries a sequence of read-only calls made one after the  *)
(* other on the unchanged tree; each item is judged exactly like a line of  *)
(* its own.  A "Pre" line carries mutating calls whose individual results   *)
(* are not re-examined (they are the prefix of a model transition test:     *)
(* every prefix is itself the target of an earlier test); the ghost state   *)
(* still follows the specification's meaning of those calls.                *)

Started == l > 1
Cur     == Trace[l - 1]
HasTree == Started /\ Cur.op \in (MutOps \cup QueryOps \cup {"Batch", "Pre"})
M       == m[Cur.t]                         \* ghost map after the call
PM      == pre.m                            \* ghost map before the call
U       == uni[Cur.t]
OTab    == [i \in 1..Len(U) |-> U[i].o]
KD      == kd[Cur.t]

Items == IF ~HasTree THEN <<>> ELSE IF Cur.op = "Batch" THEN Cur.items ELSE <<Cur>>

Good(e) == e.pan = ""                        \* the call returned normally

(* every item of the line satisfies P *)
Each(P(_)) == \A i \in 1..Len(Items) : P(Items[i])

NoPanic(e, ops) == e.op \in ops => e.pan = ""

KeysVals(e, ks) == e.keys = ks /\ e.vals = ValsOf(M, ks)

-----------------------------------------------------------------------------
(* C01 - exact map *)
C01(e) ==
  /\ NoPanic(e, {"Insert", "Search", "Delete"})
  /\ (Good(e) /\ e.op = "Search") =>
        /\ e.found = SearchFound(M, e.k)
        /\ e.found => e.val = SearchVal(M, e.k)
  /\ (Good(e) /\ e.op = "Delete") => e.res = DeleteRes(PM, e.k)
Inv_C01 == Each(C01)

(* C02 - iteration *)
C02(e) ==
  /\ NoPanic(e, {"All", "Backward"})
  /\ (Good(e) /\ e.op = "All") => KeysVals(e, AllKeys(M))
  /\ (Good(e) /\ e.op = "Backward") => KeysVals(e, BackwardKeys(M))
Inv_C02 == Each(C02)

(* C03 - Range; open = the end bound was the empty key of a byte-string tree *)
C03(e) ==
  /\ NoPanic(e, {"Range"})
  /\ (Good(e) /\ e.op = "Range" /\ KD # "collation") =>
        IF e.open THEN KeysVals(e, RangeOpenKeys(M, e.a))
        ELSE KeysVals(e, RangeKeys(M, e.a, e.b))
Inv_C03 == Each(C03)

(* C04 - Prefix *)
C04(e) ==
  /\ NoPanic(e, {"Prefix"})
  /\ (Good(e) /\ e.op = "Prefix") => KeysVals(e, PrefixKeys(M, OTab, e.p))
Inv_C04 == Each(C04)

(* C05 - extremes, TopK, BottomK *)
C05(e) ==
  /\ NoPanic(e, {"Min", "Max", "TopK", "BottomK"})
  /\ (Good(e) /\ e.op = "Min") =>
        /\ e.found = (Present(M) # {})
        /\ e.found => (e.k = MinKey(M) /\ e.v = M[MinKey(M)])
  /\ (Good(e) /\ e.op = "Max") =>
        /\ e.found = (Present(M) # {})
        /\ e.found => (e.k = MaxKey(M) /\ e.v = M[MaxKey(M)])
  /\ (Good(e) /\ e.op = "BottomK") => KeysVals(e, BottomKKeys(M, e.n))
  /\ (Good(e) /\ e.op = "TopK") => KeysVals(e, TopKKeys(M, e.n))
Inv_C05 == Each(C05)

(* C06 - Size after every operation; count of All() *)
C06(e) ==
  /\ Good(e) => e.sz = Size(M)
  /\ (Good(e) /\ e.op = "All") => Len(e.keys) = e.sz
  /\ (Good(e) /\ e.op = "Insert") => e.sz = Size(PM) + (IF Has(PM, e.k) THEN 0 ELSE 1)
  /\ (Good(e) /\ e.op = "Delete") => e.sz = Size(PM) - (IF e.res THEN 1 ELSE 0)
Inv_C06 == Each(C06)

(* C11 - well-formed index, canonical shape; on every line carrying a dump *)
DumpOK(e) ==
  LET d  == e.dump
      ls == LeafSeq(d)
  IN  /\ WF(d)
      /\ \A i \in 1..Len(ls) : ls[i].k \in 1..Len(U) /\ ls[i].tk = U[ls[i].k].t
      /\ {ls[i].k : i \in 1..Len(ls)} = Present(M)
      /\ Len(ls) = Cardinality(Present(M))
      /\ \A i \in 1..Len(ls) : ls[i].val = M[ls[i].k]
      /\ Shape(d) = Canon(LeafKeySet(d))
      /\ Len(ls) = e.sz
(* an Insert or Delete that faults leaves the index something else than the tree of the key set the call specifies *)
C11(e) ==
  /\ NoPanic(e, {"Insert", "Delete", "Pre"})
  /\ (Good(e) /\ e.op \in {"Insert", "Delete", "Dump", "Pre"} /\ e.hasd) => DumpOK(e)
Inv_C11 == Each(C11)

(* C12 - a tree emptied by deletions is indistinguishable from a new one;   *)
(* independence of trees is Inv_C01..C11 holding per tree under interleaving *)
C12(e) == (Good(e) /\ e.op = "Delete" /\ Present(M) = {}) => e.dg = dgs[Cur.t].edg
Inv_C12 == Each(C12)

(* C13 - caller memory untouched by a call *)
(* ... and ("Same" lines) a sequence yields the same whether or not the caller reused the buffers of its arguments *)
(* after the call had returned (x: arguments kept intact, y: buffers overwritten before the sequence was ranged over) *)
Inv_C13 ==
  /\ (Started /\ Cur.op = "Arena") => Cur.before = Cur.after
  /\ (Started /\ Cur.op = "Same") => Cur.x = Cur.y

(* C14 - abandon and re-iterate *)
FullKeys(e) ==
  CASE e.seq = "All"      -> AllKeys(M)
    [] e.seq = "Backward" -> BackwardKeys(M)
    [] e.seq = "TopK"     -> TopKKeys(M, e.n)
    [] e.seq = "BottomK"  -> BottomKKeys(M, e.n)
    [] e.seq = "Range"    -> IF e.open THEN RangeOpenKeys(M, e.a) ELSE RangeKeys(M, e.a, e.b)
    [] e.seq = "Prefix"   -> PrefixKeys(M, OTab, e.p)
(* "RangeAny": Range of a tree kind for which C03 gives the content no meaning (collation): the protocol still *)
(* applies - the LAST pass is complete, every pass is the prefix of it that its stop position asks for.        *)
(* the results a property promises hold for EVERY pass over a sequence value, not only the first one *)
PassesOK(e, seqs) ==
  (Good(e) /\ e.op = "Iter" /\ e.seq \in seqs) =>
     \A i \in 1..Len(e.stops) : e.passes[i] = Pass(FullKeys(e), e.stops[i]) /\ e.pvals[i] = ValsOf(M, e.passes[i])
Inv_C02P == Each(LAMBDA e : PassesOK(e, {"All", "Backward"}))
Inv_C03P == Each(LAMBDA e : (KD # "collation") => PassesOK(e, {"Range"}))
Inv_C04P == Each(LAMBDA e : PassesOK(e, {"Prefix"}))
Inv_C05P == Each(LAMBDA e : PassesOK(e, {"TopK", "BottomK"}))

C14(e) ==
  /\ NoPanic(e, {"Iter"})
  /\ (Good(e) /\ e.op = "Iter") =>
        /\ e.late = 0
        /\ Len(e.passes) = Len(e.stops)
        /\ IF e.seq = "RangeAny"
           THEN \A i \in 1..Len(e.stops) :
                   /\ e.passes[i] = Pass(e.passes[Len(e.passes)], e.stops[i])
                   /\ e.pvals[i] = Pass(e.pvals[Len(e.pvals)], e.stops[i])
           ELSE \A i \in 1..Len(e.stops) :
                   /\ e.passes[i] = Pass(FullKeys(e), e.stops[i])
                   /\ e.pvals[i] = ValsOf(M, e.passes[i])
Inv_C14 == Each(C14)

(* C15 - queries and no-op updates leave the tree untouched *)
C15(e) ==
  /\ (Good(e) /\ e.op \in QueryOps) => e.dg = pre.dg
  /\ (Good(e) /\ e.op = "Delete" /\ ~Has(PM, e.k)) => e.dg = pre.dg
  /\ (Good(e) /\ e.op = "Insert" /\ Has(PM, e.k)) => e.sg = pre.sg
Inv_C15 == Each(C15)

(* C17 - retained memory.  Checkpoints carry the live heap after two forced   *)
(* collections.  Within a phase (queries / overwrites / churn at bounded     *)
(* size) the heap may exceed the phase's first checkpoint by no more than    *)
(* Slack; once every key has been deleted it may exceed the heap measured    *)
(* before the first insertion by no more than EmptySlack.                    *)
Slack == 524288
EmptySlack == 524288
Inv_C17 ==
  (Started /\ Cur.op = "Checkpoint" /\ ~Cur.first) =>
     IF Cur.phase = "emptied" THEN Cur.heap <= base[Cur.t].empty + EmptySlack
     ELSE Cur.heap <= base[Cur.t].phase + Slack

-----------------------------------------------------------------------------
(* error traces print only the position (the trace file has the rest) *)
TraceAlias == [l |-> l]

(* The whole trace was consumed (guards against silently skipped lines).    *)
TraceComplete ==
  TLCGet("stats").diameter - 1 = Len(Trace)

=============================================================================
