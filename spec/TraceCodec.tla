----------------------------- MODULE TraceCodec -----------------------------
(***************************************************************************)
(* Trace validation for C07: outputs of the REAL Transform / Restore of    *)
(* the exported codec types, recorded for batches of bit patterns sorted   *)
(* by the harness's oracle comparator.  Per record: fixed length and exact *)
(* round trip; per adjacent pair (also across lines): the declared order   *)
(* on the bit patterns (Codec!ValueLess, which never looks at an encoding) *)
(* agrees with the bytewise order of the encodings, and equal encodings    *)
(* occur exactly for equal values - by transitivity an order isomorphism   *)
(* on the whole batch.  Tuples: fields compared left to right.             *)
(* Agreement with the transcribed design (Codec!Enc) is recorded as        *)
(* Design_C07: informative, not a verdict.                                 *)
(***************************************************************************)
EXTENDS Codec, Json, IOUtils

TraceFile == IF "TRACE" \in DOMAIN IOEnv THEN IOEnv.TRACE ELSE "trace.ndjson"
Trace == ndJsonDeserialize(TraceFile)

VARIABLES l, prev     \* prev: last record of the previous line of the same batch (<<>> at a batch start)
vars == <<l, prev>>

TraceInit == l = 1 /\ prev = <<>>
TraceNext ==
  /\ l <= Len(Trace)
  /\ Trace[l].op \in {"batch", "cont", "panic"}
  /\ l' = l + 1
  /\ prev' = IF Trace[l].op = "panic" THEN prev ELSE Trace[l].items[Len(Trace[l].items)]
TraceSpec == TraceInit /\ [][TraceNext]_vars

Started == l > 1 /\ Trace[l - 1].op # "panic"
Cur == Trace[l - 1]
(* encoding or decoding a value of the type faulted *)
NoFault == (l > 1) => Trace[l - 1].op # "panic"
(* the records to be compared pairwise: the carried one, then this line's *)
Recs == IF Cur.op = "cont" /\ l > 2 THEN <<Trace[l - 2].items[Len(Trace[l - 2].items)]>> \o Cur.items ELSE Cur.items

(* field f of a tuple pattern: fields is a sequence of [ty, w] *)
RECURSIVE Off(_, _)
Off(fields, f) == IF f = 1 THEN 0 ELSE Off(fields, f - 1) + fields[f - 1].w
Field(fields, a, f) == SubSeq(a, Off(fields, f) + 1, Off(fields, f) + fields[f].w)

TLess(fields, a, b) ==
  \E f \in 1..Len(fields) :
     /\ \A g \in 1..(f - 1) : ValueEq(fields[g].ty, Field(fields, a, g), Field(fields, b, g))
     /\ ValueLess(fields[f].ty, Field(fields, a, f), Field(fields, b, f))
TEq(fields, a, b) == \A f \in 1..Len(fields) : ValueEq(fields[f].ty, Field(fields, a, f), Field(fields, b, f))

VLess(a, b) == IF Cur.ty = "tuple" THEN TLess(Cur.fields, a, b) ELSE ValueLess(Cur.ty, a, b)
VEq(a, b)   == IF Cur.ty = "tuple" THEN TEq(Cur.fields, a, b) ELSE ValueEq(Cur.ty, a, b)
AnyNaN(a) ==
  IF Cur.ty = "tuple" THEN \E f \in 1..Len(Cur.fields) : IsNaN(Cur.fields[f].ty, Field(Cur.fields, a, f))
  ELSE IsNaN(Cur.ty, a)

(* the harness sorted the batch with its oracle: the spec's own order must not contradict it
   (otherwise the trace is ill-formed, not the code wrong) *)
WellSorted == Started => \A i \in 1..(Len(Recs) - 1) : ~VLess(Recs[i + 1].in, Recs[i].in)

FixedLen == Started => \A i \in 1..Len(Cur.items) : Len(Cur.items[i].enc) = Cur.w /\ Len(Cur.items[i].in) = Cur.w

(* dec2: the same encoding (the very slice the encoder returned) decoded a second time - whoever holds an *)
(* encoding, a leaf for one, decodes it again and again                                                 *)
RoundTripOK ==
  Started => \A i \in 1..Len(Cur.items) :
     LET r == Cur.items[i]
     IN  IF AnyNaN(r.in) THEN VEq(r.in, r.dec) /\ VEq(r.in, r.dec2)    \* NaN for NaN (payload not preserved)
         ELSE r.dec = r.in /\ r.dec2 = r.in                            \* bit for bit, every time

OrderIso ==
  Started => \A i \in 1..(Len(Recs) - 1) :
     LET a == Recs[i] b == Recs[i + 1]
     IN  /\ VLess(a.in, b.in) <=> LexLess(a.enc, b.enc)
         /\ VEq(a.in, b.in) <=> (a.enc = b.enc)
         /\ ~LexLess(b.enc, a.enc)

Inv_C07 == NoFault /\ FixedLen /\ RoundTripOK /\ OrderIso

(* conformance to the transcribed design: informative *)
Design_C07 ==
  (Started /\ Cur.ty # "tuple") => \A i \in 1..Len(Cur.items) : Cur.items[i].enc = Enc(Cur.ty, Cur.items[i].in)

TraceAlias == [l |-> l]
TraceComplete == TLCGet("stats").diameter - 1 = Len(Trace)
=============================================================================
