----------------------------- MODULE TraceDrift -----------------------------
(***************************************************************************)
(* Conformance of the implementation-shaped model to the implementation.   *)
(*                                                                         *)
(* TraceArt judges real executions against the MEANING (ArtMap, ArtWF).    *)
(* This module additionally runs the L1 model ArtTree next to the trace:   *)
(* a ghost tree gt[t] is updated by the model's own Insert / Delete code   *)
(* paths for every logged mutation, and DriftFree compares it - size       *)
(* classes, recorded fan-outs, compressed-path lengths, meaningful inline  *)
(* bytes, branch bytes, leaves - with the structural dump of the real      *)
(* tree.  A difference is MODEL DRIFT: it says the model no longer mirrors *)
(* the code (e.g. a shrink threshold was changed), which is recorded in    *)
(* the evidence and is never by itself an alarm about a property.          *)
(***************************************************************************)
EXTENDS TraceArt

VARIABLE gt      \* gt[t]: the L1 model's tree for real tree t

L1 == INSTANCE ArtTree WITH
        Keys <- <<>>, Family <- "alpha", RangeBad <- {}, EmitEdges <- FALSE, MaxDepth <- 0, Ramp <- FALSE, StartFull <- FALSE, ProtectEnds <- TRUE, FillCap <- 0, DrainFloor <- 0, CovOn <- FALSE,
        SizeOnSplit <- TRUE, RangeDepth <- "perPath", SearchGuard <- TRUE, LcpBranch <- TRUE, KCounter <- "perIteration",
        tree <- gt, size <- l, m <- m, h <- <<>>, lastOK <- TRUE, phase <- "fill"

GIns(tr, key, k) == IF tr.kind = "empty" THEN MkLeaf(k, key, 1) ELSE L1!InsAt(tr, key, k, 0).t
GDel(tr, key, k) ==
  IF tr.kind = "empty" THEN tr
  ELSE IF tr.kind = "leaf" THEN (IF tr.k = k THEN EmptyTree ELSE tr)
  ELSE L1!DelAt(tr, key, k, 0).t

RECURSIVE GFold(_, _, _, _)
GFold(tr, U_, ops, i) ==
  IF i > Len(ops) THEN tr
  ELSE GFold(IF ops[i][1] = "I" THEN GIns(tr, U_[ops[i][2]].t, ops[i][2]) ELSE GDel(tr, U_[ops[i][2]].t, ops[i][2]), U_, ops, i + 1)

DriftInit == TraceInit /\ gt = [t \in 1..MaxT |-> EmptyTree]

DriftNext ==
  /\ TraceNext
  /\ LET e == Trace[l] IN
     CASE e.op \in {"reset"} -> gt' = [t \in 1..MaxT |-> EmptyTree]
       [] e.op \in {"new", "clear"} -> gt' = [gt EXCEPT ![e.t] = EmptyTree]
       [] e.op = "Insert" /\ e.pan = "" -> gt' = [gt EXCEPT ![e.t] = GIns(@, uni[e.t][e.k].t, e.k)]
       [] e.op = "Delete" /\ e.pan = "" -> gt' = [gt EXCEPT ![e.t] = GDel(@, uni[e.t][e.k].t, e.k)]
       [] e.op = "Pre" /\ e.pan = "" -> gt' = [gt EXCEPT ![e.t] = GFold(@, uni[e.t], e.ops, 1)]
       [] OTHER -> gt' = gt

DriftSpec == DriftInit /\ [][DriftNext]_<<vars, gt>>

(* what is compared: everything but values and the bytes stored beyond the meaningful inline part *)
RECURSIVE Norm(_)
Norm(nd) ==
  IF nd.kind = "empty" THEN <<"empty">>
  ELSE IF nd.kind = "leaf" THEN <<"leaf", nd.k, nd.tk>>
  ELSE <<nd.kind, nd.n, nd.plen, SubSeq(nd.pfx, 1, WMin(WMin(nd.plen, 10), Len(nd.pfx))), nd.bytes,
         [i \in 1..Len(nd.ch) |-> Norm(nd.ch[i])]>>

(* collation Range: the real result against the model of what the code does (no map-level meaning exists) *)
RangeCOne(e) ==
  (e.op = "RangeC" /\ e.pan = "") =>
     e.keys = L1!RangeCollation(gt[Cur.t], U[e.a].o, U[e.a].t, U[e.b].o, U[e.b].t, OTab)
RangeCFree == Each(RangeCOne)

DriftFree ==
  (Started /\ Cur.op \in {"Insert", "Delete", "Dump", "Pre"} /\ Cur.pan = "" /\ Cur.hasd) =>
     Norm(Cur.dump) = Norm(gt[Cur.t])

=============================================================================
