------------------------------ MODULE TraceNode ------------------------------
(***************************************************************************)
(* Trace validation for C10: executions of REAL nodes - a bare node handle *)
(* driven through the library's own addChild / deleteChild / findChild and *)
(* iterators, and sweeps of the SWAR / SIMD primitives over crafted lanes  *)
(* - are judged against the abstract byte -> child table and against the   *)
(* primitives' scalar meaning.                                             *)
(***************************************************************************)
EXTENDS Integers, Sequences, FiniteSets, TLC, Json, IOUtils

TraceFile == IF "TRACE" \in DOMAIN IOEnv THEN IOEnv.TRACE ELSE "trace.ndjson"
Trace == ndJsonDeserialize(TraceFile)

VARIABLES l, table      \* table: byte+1 -> child id (0 = none)
vars == <<l, table>>

Empty == [x \in 1..256 |-> 0]

RECURSIVE Fold(_, _, _)
Fold(tb, ops, i) ==
  IF i > Len(ops) THEN tb
  ELSE Fold([tb EXCEPT ![ops[i][2] + 1] = IF ops[i][1] = "A" THEN ops[i][2] + 1 ELSE 0], ops, i + 1)

TraceInit == l = 1 /\ table = Empty

TraceNext ==
  /\ l <= Len(Trace)
  /\ l' = l + 1
  /\ LET e == Trace[l] IN
     CASE e.op = "nreset" -> table' = Empty
       [] e.op = "NPre"   -> table' = Fold(table, e.ops, 1)
       [] e.op = "A"      -> table[e.b + 1] = 0 /\ table' = [table EXCEPT ![e.b + 1] = e.b + 1]
       [] e.op = "R"      -> table[e.b + 1] # 0 /\ table' = [table EXCEPT ![e.b + 1] = 0]
       [] e.op \in {"P4", "P16"} -> UNCHANGED table

TraceSpec == TraceInit /\ [][TraceNext]_vars

Started == l > 1
Cur == Trace[l - 1]
IsStep == Started /\ Cur.op \in {"A", "R"}

Dom == {b \in 0..255 : table[b + 1] # 0}
RECURSIVE Sorted(_)
Sorted(S) == IF S = {} THEN <<>> ELSE LET x == CHOOSE y \in S : \A z \in S : y <= z IN <<x>> \o Sorted(S \ {x})
Rev(s) == [i \in 1..Len(s) |-> s[Len(s) + 1 - i]]
IdsOf(bs) == [i \in 1..Len(bs) |-> table[bs[i] + 1]]
Cap(k) == CASE k = "n4" -> 4 [] k = "n16" -> 16 [] k = "n48" -> 48 [] k = "n256" -> 256 [] OTHER -> 0

(* the node has collapsed into its last child: nothing to look up any more *)
Collapsed == Cur.kind = "leaf"

NoPanic == IsStep => Cur.pan = ""

(* probing each of the 256 byte values finds exactly the registered child *)
LookupOK ==
  (IsStep /\ Cur.pan = "" /\ ~Collapsed) => \A b \in 0..255 : Cur.find[b + 1] = (IF table[b + 1] # 0 THEN table[b + 1] ELSE -1)

(* children enumerate in ascending unsigned byte order, backward is the reverse, extremes agree *)
EnumOK ==
  (IsStep /\ Cur.pan = "" /\ ~Collapsed) =>
     /\ Cur.eb = Sorted(Dom)
     /\ Cur.ei = IdsOf(Cur.eb)
     /\ Cur.bb = Rev(Cur.eb)
     /\ Cur.bi = Rev(Cur.ei)
     /\ Dom # {} => (Cur.min = Cur.ei[1] /\ Cur.max = Cur.ei[Len(Cur.ei)])

(* recorded fan-out and size class *)
ClassOK ==
  (IsStep /\ Cur.pan = "") =>
     IF Collapsed THEN Cardinality(Dom) = 1
     ELSE /\ Cur.n = Cardinality(Dom)
          /\ Cur.n <= Cap(Cur.kind)
          /\ Cur.real = Cur.n

(* the primitives against a plain scalar scan, whatever the unoccupied lanes hold *)
First(w, lim, P(_)) ==
  IF \E i \in 1..lim : P(w[i]) THEN (CHOOSE i \in 1..lim : P(w[i]) /\ \A j \in 1..(i - 1) : ~P(w[j])) - 1 ELSE -1

Prim4OK ==
  (Started /\ Cur.op = "P4") =>
     \A b \in 0..255 :
        /\ Cur.find[b + 1] = First(Cur.w, Cur.n, LAMBDA x : x = b)       \* lookup: occupied slots only
        /\ Cur.search[b + 1] = First(Cur.w, 4, LAMBDA x : x = b)         \* raw word search: first equal lane
        /\ Cur.ipos[b + 1] = First(Cur.w, 4, LAMBDA x : x >= b)          \* raw word: first greater-or-equal lane (unsigned)

Prim16OK ==
  (Started /\ Cur.op = "P16") =>
     \A b \in 0..255 :
        /\ Cur.find[b + 1] = First(Cur.w, Cur.n, LAMBDA x : x = b)
        /\ Cur.search[b + 1] = First(Cur.w, Cur.n, LAMBDA x : x = b)
        /\ Cur.ipos[b + 1] = First(Cur.w, Cur.n, LAMBDA x : x > b)

Inv_C10 == NoPanic /\ LookupOK /\ EnumOK /\ ClassOK /\ Prim4OK /\ Prim16OK

TraceAlias == [l |-> l]
TraceComplete == TLCGet("stats").diameter - 1 = Len(Trace)
=============================================================================
