--------------------------- MODULE TraceNodeDrift ---------------------------
(***************************************************************************)
(* Conformance of the raw-lane model ArtNode to real nodes.                *)
(*                                                                         *)
(* TraceNode judges real nodes against the abstract byte -> child table.   *)
(* Here the model ArtNode is stepped next to the trace (its own Add and    *)
(* Remove actions, conjoined with the trace step) and its RAW state - size *)
(* class, fill count, every key lane including the unoccupied / stale      *)
(* ones, the slot numbers of the 48-class index - is compared with what    *)
(* the real node holds.  A difference is model drift (informative).        *)
(* Only traces without prefix lines (random ramps) can be followed.        *)
(***************************************************************************)
EXTENDS TraceNode

VARIABLES gk, gn, gl, gkids, gidx, gh

N == INSTANCE ArtNode WITH Alphabet <- 0..255, Probes <- {}, EmitEdges <- FALSE, GuardFill <- TRUE, Unsigned16 <- TRUE,
                           kind <- gk, n <- gn, lanes <- gl, kids <- gkids, idx <- gidx, table <- table, h <- gh

gvars == <<gk, gn, gl, gkids, gidx, gh>>

DriftInit == TraceInit /\ N!Init

DriftNext ==
  /\ TraceNext
  /\ LET e == Trace[l] IN
     CASE e.op = "nreset" ->
            /\ gk' = "n4" /\ gn' = 0 /\ gl' = N!Zeros(4) /\ gkids' = N!Zeros(4) /\ gidx' = <<>> /\ gh' = <<>>
       [] e.op = "A" /\ e.pan = "" -> N!Add(e.b)
       [] e.op = "R" /\ e.pan = "" -> N!Remove(e.b)
       [] OTHER -> UNCHANGED gvars

DriftSpec == DriftInit /\ [][DriftNext]_<<vars, gvars>>

Slots48 ==
  LET S == {b \in 0..255 : gidx[b + 1] # 0}
  IN  [i \in 1..Cardinality(S) |-> gidx[(CHOOSE b \in S : Cardinality({c \in S : c < b}) = i - 1) + 1]]

NodeDriftFree ==
  (IsStep /\ Cur.pan = "" /\ ~Collapsed) =>
     /\ Cur.kind = gk
     /\ Cur.n = gn
     /\ (gk \in {"n4", "n16"}) => Cur.raw = gl
     /\ (gk = "n48") => Cur.raw = Slots48

=============================================================================
